"""
Bounded-exhaustive program enumerator for C09 (inlining, specialisation, hoisting).

The space is a finite product, enumerated in a fixed order (no sampling):

  pairs   f -> g :  callee context {none, declared, REAL}
                  x callee body   {arith, mut, glob, clash, ownwith, ownwith_ret, tworet, assert}
                  x call position (POSITIONS, 28 of them)
                  x argument form {A0: plain variables, A1: expressions that read the list}
  chains  f -> g -> h :  g context x g chain body {c_assign, c_readmut, c_with, c_ifexp}
                  x h context x h body x call position (CHAIN_POSITIONS)

Every callee has the signature (x: Real, xs: list[Real]) -> Real so that every
body fits every call position; the caller is f(u, v, us, n) and returns the
tuple (z, us[0] * KF, us[1]) so that both the computed value and the final
state of the (shared) list argument are observed.  All arithmetic is + and *
on dyadic inputs, so it is exact under REAL and rounds differently under each
of the small contexts used (precisions 2..6 with different rounding modes, and
IEEE half): a context taken from the wrong place changes the result.

  factory f -> {g3, g5[, g7]} [-> via [-> via2]] :  callees made by ONE factory, so that
                  they capture DIFFERENT values under the SAME free-variable name K (the
                  caller's own scope does not bind K) -- or the same value (control);
                  callee context x body {fglob, fglobwith} x layout (FACT_LAYOUTS: one
                  statement, two statements, loop + top level, chain through a helper,
                  both inside the helper, 3-chain) x {2, 3 callees} x {different, same}

  pinned  (monomorphize): caller and/or callees DECLARE a pool format under a non-default
                  rounding mode (RTZ/RTP/RTN; binary16 also with overflow mode SATURATE):
                  format {mp3, ieee16, ieee16sat, fixed} x mode x who pins {caller, both,
                  callee, chain} x caller body {expr, for}; monomorphized against every pool
                  context and every same-format context of each rounding mode

A program is described by a tuple (picklable, JSON-able):
  ('pair', gctx, gbody, position, argform)
  ('chain', gctx, gchain, hctx, hbody, position)
  ('fact', gctx, fbody, layout, ncallees, variant)
  ('pin', fmt, mode, who, position)
  ('argnest', cctx, bctx, position)     an inlined call nested in an argument of an inlined call
  ('two', gctx, body, layout, naming)   two callees (distinct names, or the SAME def name from two factories): a local of one named like a free variable of the other
and `build(desc)` returns its source text.
"""

from __future__ import annotations

from fractions import Fraction

# ---- contexts (texts are evaluated with `fp` bound to fpy2) -------------

CALLEE_CTX = {
    'none': None,
    'decl': 'fp.MPFloatContext(5, fp.RM.RTP)',
    'real': 'fp.REAL',
}
W_CTX = 'fp.MPFloatContext(2, fp.RM.RTN)'       # the callee's own `with`
CA = 'fp.MPFloatContext(6, fp.RM.RAZ)'          # caller's outer nested `with`
CB = 'fp.MPFloatContext(3, fp.RM.RNE)'          # caller's inner nested `with`
LOOP_CTX = 'fp.MPFloatContext(4, fp.RM.RTP)'    # literal context inside a loop (liftable)

# caller contexts; None = no ctx argument (the interpreter's default, binary64)
CALLER_CTXS_QUICK = ['fp.MPFloatContext(3, fp.RM.RTZ)', 'fp.IEEEContext(5, 16)', 'fp.REAL']
CALLER_CTXS_THOROUGH = CALLER_CTXS_QUICK + [None, 'fp.MPFixedContext(-3, fp.RM.RNA)']

K_VALUE = '1.5625'      # global read by the `glob` callee
KF_VALUE = '1.25'       # global read by every caller
KG_VALUE = '0.375'      # second global read by the caller in position `callerK`
GLOBALS_CHANGED = {'K': 2.75, 'KF': 0.5, 'KG': 1.5}     # values the globals are set to after `close`

# ---- callee bodies ----------------------------------------------------

# kind -> (parameter names, body lines)
BODIES = {
    'arith': (('x', 'xs'), ['return x * x + x']),
    'mut': (('x', 'xs'), ['xs[0] = xs[0] * x + 1', 'return xs[0] + xs[1]']),
    'glob': (('x', 'xs'), ['return x * K + x']),
    # parameters and locals named like the caller's arguments, locals and the
    # names the passes generate (t, ctx)
    'clash': (('u', 'us'), ['t = u * u', 'z = t + u', 'v = z * t', 'ctx = v + u', 'return ctx']),
    'ownwith': (('x', 'xs'), [f'with {W_CTX}:', '    a = x * x', 'return a + x']),
    'ownwith_ret': (('x', 'xs'), [f'with {W_CTX}:', '    return x * x + x']),
    'tworet': (('x', 'xs'), ['if x > 2:', '    return x * x', 'return x + x']),
    'assert': (('x', 'xs'), ['assert x > 1', 'return x * x']),
}
BODY_KINDS = list(BODIES)

CHAIN_BODIES = {
    'c_assign': ['a = h(x, xs)', 'return a * x + a'],
    'c_readmut': ['a = xs[0] + h(x, xs)', 'return a * x'],
    'c_with': [f'with {W_CTX}:', '    a = h(x, xs)', 'return a + x'],
    'c_ifexp': ['a = h(x, xs) if x > 2 else x', 'return a + x'],
}
CHAIN_KINDS = list(CHAIN_BODIES)

EFFECT = {'mut': 'mutates-arg', 'assert': 'asserts', 'glob': 'reads-global'}


def effect_of(kinds) -> str:
    es = {EFFECT.get(k, 'pure') for k in kinds}
    for e in ('mutates-arg', 'asserts', 'reads-global'):
        if e in es:
            return e
    return 'pure'


# ---- argument forms ------------------------------------------------------

ARGFORMS = {
    # call1, call2 (second call in the same statement), call on n, on x, on k
    'A0': {'c1': 'g(u, us)', 'c2': 'g(v, us)', 'cn': 'g(n, us)', 'cx': 'g(x, us)', 'ck': 'g(k, us)'},
    'A1': {'c1': 'g(us[0] + v, us)', 'c2': 'g(us[1] * u, us)', 'cn': 'g(n, us)',
           'cx': 'g(x + us[0], us)', 'ck': 'g(k + us[1], us)'},
}

# ---- call positions (caller body before the final return) -----------------

RET = 'return (z, us[0] * KF, us[1])'


def _pos(lines, ret=RET):
    return lines, ret


POSITIONS = {
    'assign': lambda a: _pos([f'z = {a["c1"]}']),
    'expr': lambda a: _pos([f'z = u * {a["c1"]} + v']),
    'return': lambda a: _pos([], f'return ({a["c1"]}, us[0] * KF, us[1])'),
    'twice': lambda a: _pos([f'z = {a["c1"]} * {a["c2"]}']),
    'nested_call': lambda a: _pos([f'z = g({a["c1"]}, us)']),
    'with2': lambda a: _pos([f'with {CA}:', f'    with {CB}:', f'        z = {a["c1"]}']),
    'withexpr': lambda a: _pos([f'with fp.MPFloatContext({a["cn"]}):', '    z = u * v + u']),
    'for': lambda a: _pos(['z = 0', 'for x in us:', f'    z = z + {a["cx"]}']),
    'ifcond': lambda a: _pos([f'if {a["c1"]} > v:', '    z = u', 'else:', '    z = v']),
    'elifcond': lambda a: _pos(['if u > v:', '    z = u', f'elif {a["c1"]} > v:', '    z = v', 'else:', '    z = n']),
    'whilecond': lambda a: _pos(['k = 0', f'while {a["ck"]} < n and k < 4:', '    k = k + 1', 'z = k']),
    'ifexp_t': lambda a: _pos([f'z = {a["c1"]} if u > v else v']),
    'ifexp_f': lambda a: _pos([f'z = v if u > v else {a["c1"]}']),
    'and_rhs': lambda a: _pos([f'c = u > v and {a["c1"]} > 1', 'z = u if c else v']),
    'or_rhs': lambda a: _pos([f'c = u > v or {a["c1"]} > 1', 'z = u if c else v']),
    'comp': lambda a: _pos([f'ys = [{a["cx"]} for x in us]', 'z = ys[0] + ys[1]']),
    'comp_shadow': lambda a: _pos(['x = u', f'ys = [{a["cx"]} for x in us]', 'z = ys[0] + ys[1] + x']),
    'readmut': lambda a: _pos([f'z = us[0] + {a["c1"]}']),
    'tuple_readmut': lambda a: _pos([], f'return (us[0], {a["c1"]}, us[0] * KF, us[1])'),
    # argument evaluation order: the first argument's call mutates what the second reads
    'argorder': lambda a: _pos([f'z = g({a["c1"]}, [us[0], us[1]])']),
    'idx_assign': lambda a: _pos([f'us[1] = us[0] + {a["c1"]}', 'z = us[1]']),
    # a caller local named like the global the callee reads
    'localK': lambda a: _pos(['K = u + v', f'z = {a["c1"]} + K']),
    # the caller reads the same global as the callee, and a second one
    'callerK': lambda a: _pos([f'z = {a["c1"]} * K + KG']),
    # a caller local named like the temporaries the passes generate
    'localt': lambda a: _pos(['t = u', 'ctx = v', f'z = {a["c1"]} + t * ctx']),
    # context constructors inside loops (lift_context)
    'loopctx_lit': lambda a: _pos(['z = 0', 'for x in us:', f'    with {LOOP_CTX}:', f'        z = z + {a["cx"]}']),
    'loopctx_arg': lambda a: _pos(['z = 0', 'for x in us:', '    with fp.MPFloatContext(n + 1):',
                                   f'        z = z + {a["cx"]}']),
    'loopctx_var': lambda a: _pos(['z = 0', 'for i in range(3):', '    with fp.MPFloatContext(i + 2):',
                                   f'        z = z + {a["c1"]}']),
    'loopctx_phi': lambda a: _pos(['z = 0', 'p = 2', 'for x in us:', '    with fp.MPFloatContext(p):',
                                   f'        z = z + {a["cx"]}', '    p = p + 2']),
}
POSITION_KINDS = list(POSITIONS)

CHAIN_POSITIONS = ['assign', 'twice', 'with2', 'withexpr', 'for', 'ifcond', 'ifexp_t', 'readmut',
                   'loopctx_lit']


# ---- source construction ---------------------------------------------------

def _callee(name: str, ctxkind: str, params, lines) -> str:
    ctx = CALLEE_CTX[ctxkind]
    deco = '@fp.fpy' if ctx is None else f'@fp.fpy(ctx={ctx})'
    p0, p1 = params
    body = '\n'.join('    ' + ln for ln in lines)
    return f'{deco}\ndef {name}({p0}: fp.Real, {p1}: list[fp.Real]) -> fp.Real:\n{body}\n'


def _caller(position: str, argform: str) -> str:
    lines, ret = POSITIONS[position](ARGFORMS[argform])
    body = '\n'.join('    ' + ln for ln in lines + [ret])
    return f'@fp.fpy\ndef f(u: fp.Real, v: fp.Real, us: list[fp.Real], n: fp.Real):\n{body}\n'


# ---- factory family: one captured name, several captured values -----------------

FACT_BODIES = {
    'fglob': ['return x * K + x'],
    'fglobwith': [f'with {W_CTX}:', '    a = x * K', 'return a + x'],
}
FACT_VALUES = {'diff': ('1.5625', '2.75', '0.375'), 'same': ('1.5625', '1.5625', '1.5625')}

# layout -> (callee counts it exists for, helper functions, caller lines) by number of callees
FACT_LAYOUTS = {
    'one_stmt': {2: ([], ['z = g3(u, us) + g5(v, us)']),
                 3: ([], ['z = g3(u, us) + g5(v, us) * g7(u, us)'])},
    'two_stmts': {2: ([], ['a = g3(u, us)', 'z = a * g5(v, us)']),
                  3: ([], ['a = g3(u, us)', 'z = a * g5(v, us)', 'z = z + g7(u, us)'])},
    'loop_top': {2: ([], ['z = 0', 'for x in us:', '    z = z + g3(x, us)', 'z = z * g5(v, us)'])},
    'chain': {2: ([('via', ['return g5(x, xs) + 1'])], ['z = g3(u, us) - via(v, us)'])},
    'chain_inner': {2: ([('via', ['return g3(x, xs) + g5(x, xs)'])], ['z = via(u, us) + v']),
                    3: ([('via', ['a = g3(x, xs) + g5(x, xs)', 'return a * g7(x, xs)'])], ['z = via(u, us) + v'])},
    'chain3': {2: ([('via', ['return g5(x, xs) + 1']), ('via2', ['return via(x, xs) * x'])],
                   ['z = g3(u, us) - via2(v, us)'])},
}


def fact_functions(desc) -> list[str]:
    """Names of the FPy functions of a factory program other than f."""
    _, _, _, layout, n, _ = desc
    helpers, _ = FACT_LAYOUTS[layout][n]
    return ['g3', 'g5'] + (['g7'] if n == 3 else []) + [h for h, _ in helpers]


def _build_fact(desc) -> str:
    _, gctx, fbody, layout, n, variant = desc
    ctx = CALLEE_CTX[gctx]
    deco = '@fp.fpy' if ctx is None else f'@fp.fpy(ctx={ctx})'
    body = '\n'.join('        ' + ln for ln in FACT_BODIES[fbody])
    src = f'KF = {KF_VALUE}\nKG = {KG_VALUE}\n\n'
    src += (f'def make_g(K):\n    {deco}\n    def gk(x: fp.Real, xs: list[fp.Real]) -> fp.Real:\n'
            f'{body}\n    return gk\n\n')
    vals = FACT_VALUES[variant]
    for name, val in zip(('g3', 'g5', 'g7'), vals[:n]):
        src += f'{name} = make_g({val})\n'
    src += '\n'
    helpers, lines = FACT_LAYOUTS[layout][n]
    for hname, hlines in helpers:
        src += _callee(hname, 'none', ('x', 'xs'), hlines) + '\n'
    cbody = '\n'.join('    ' + ln for ln in lines + [RET])
    src += f'@fp.fpy\ndef f(u: fp.Real, v: fp.Real, us: list[fp.Real], n: fp.Real):\n{cbody}\n'
    return src


def all_facts() -> list[tuple]:
    out = []
    for layout, by_n in FACT_LAYOUTS.items():
        for n in by_n:
            for fbody in FACT_BODIES:
                for variant in FACT_VALUES:
                    for gctx in CALLEE_CTX:
                        out.append(('fact', gctx, fbody, layout, n, variant))
    return out


# ---- pinned family: declared contexts that differ from a request only in their modes ------

PIN_FORMATS = {
    'mp3': 'fp.MPFloatContext(3, fp.RM.{rm})',
    'ieee16': 'fp.IEEEContext(5, 16, fp.RM.{rm})',
    'ieee16sat': 'fp.IEEEContext(5, 16, fp.RM.{rm}, fp.OV.SATURATE)',
    'fixed': 'fp.MPFixedContext(-3, fp.RM.{rm})',
}
# the same number format under the default overflow mode (what a request names)
PIN_REQUEST_FORMATS = dict(PIN_FORMATS, ieee16sat=PIN_FORMATS['ieee16'])
PIN_MODES = {'mp3': ('RTZ', 'RTP', 'RTN'), 'ieee16': ('RTZ', 'RTP', 'RTN'),
             'ieee16sat': ('RNE', 'RTZ', 'RTP'), 'fixed': ('RTZ', 'RTP', 'RTN')}
PIN_REQUEST_MODES = ('RNE', 'RTZ', 'RTP', 'RTN')
PIN_WHO = ('caller', 'both', 'callee', 'chain')
PIN_POSITIONS = ('expr', 'for')


def _other_mode(mode: str) -> str:
    return {'RTZ': 'RTP', 'RTP': 'RTN', 'RTN': 'RTZ', 'RNE': 'RTZ'}[mode]


def _pin_fn(name, ctx, lines, caller=False):
    deco = '@fp.fpy' if ctx is None else f'@fp.fpy(ctx={ctx})'
    body = '\n'.join('    ' + ln for ln in lines)
    if caller:
        return f'{deco}\ndef f(u: fp.Real, v: fp.Real, us: list[fp.Real], n: fp.Real):\n{body}\n'
    return f'{deco}\ndef {name}(x: fp.Real, xs: list[fp.Real]) -> fp.Real:\n{body}\n'


def _build_pin(desc) -> str:
    _, fmt, mode, who, position = desc
    own = PIN_FORMATS[fmt].format(rm=mode)
    other = PIN_FORMATS[fmt].format(rm=_other_mode(mode))
    lines, ret = POSITIONS[position](ARGFORMS['A0'])
    src = f'K = {K_VALUE}\nKF = {KF_VALUE}\nKG = {KG_VALUE}\n\n'
    if who == 'chain':
        src += _pin_fn('h', other, ['return x * x + x']) + '\n'
        src += _pin_fn('g', None, ['a = h(x, xs)', 'return a * x + a']) + '\n'
    else:
        gctx = {'caller': None, 'both': other, 'callee': own}[who]
        src += _pin_fn('g', gctx, ['return x * x + x']) + '\n'
    src += _pin_fn('f', None if who == 'callee' else own, lines + [ret], caller=True)
    return src


def pin_requests(desc, pool: list) -> list[str]:
    """Contexts a pinned program is monomorphized against: the pool, and the
    program's own number format under every rounding mode."""
    fmt = desc[1]
    out = [c for c in pool if c is not None]
    for rm in PIN_REQUEST_MODES:
        c = PIN_REQUEST_FORMATS[fmt].format(rm=rm)
        if c not in out:
            out.append(c)
    return out


def all_pins() -> list[tuple]:
    out = []
    for position in PIN_POSITIONS:
        for who in PIN_WHO:
            for fmt in PIN_FORMATS:
                for mode in PIN_MODES[fmt]:
                    out.append(('pin', fmt, mode, who, position))
    return out


# inputs on which every operation of the pinned programs is inexact under the small
# formats (10-bit fractions, both signs; the last overflows binary16)
INPUTS_PIN = [
    ('1365/1024', '2781/1024', ['1195/1024', '717/1024'], '2'),
    ('-1365/1024', '2781/1024', ['-1195/1024', '717/1024'], '2'),
    ('2781/1024', '-1365/1024', ['3413/1024', '-1707/1024', '853/1024'], '3'),
    ('-5461/2048', '-683/512', ['-2389/1024', '-1451/1024'], '2'),
    ('307507/1024', '256717/1024', ['269/1024', '1195/1024'], '2'),
]


# ---- extra positions of the pair grammar, enumerated with a small callee set only ----------
# a context constructor whose argument is a local variable with a statically known value:
# lift_context must not hoist it above the assignment it depends on
EXTRA_POSITIONS = {
    'loopctx_const': lambda a: _pos(['p = 3', 'z = 0', 'for x in us:', '    with fp.MPFloatContext(p):',
                                     f'        z = z + {a["cx"]}']),
    'loopctx_inner': lambda a: _pos(['z = 0', 'for x in us:', '    p = 3', '    with fp.MPFloatContext(p):',
                                     f'        z = z + {a["cx"]}']),
    'ctx_var': lambda a: _pos(['p = 3', 'with fp.MPFloatContext(p, fp.RM.RTZ):', f'    z = {a["c1"]}']),
    'ctx_var2': lambda a: _pos(['p = 3', 'q = p + 2', 'with fp.IEEEContext(q, 16):', f'    z = {a["c1"]}']),
}
POSITIONS.update(EXTRA_POSITIONS)


def all_extras() -> list[tuple]:
    return [('pair', gctx, gbody, position, 'A0')
            for position in EXTRA_POSITIONS for gbody in ('arith', 'ownwith') for gctx in ('none', 'decl')]


# ---- argnest family: an argument of an inlined call is itself an inlined call that writes the
# shared list, while an earlier / later argument reads that list ---------------------------------

ARGNEST_POSITIONS = {
    'read_bump': (['z = comb(us[0], b(u, us))'], RET),
    'bump_read': (['z = comb(b(u, us), us[0])'], RET),
    'three': (['z = comb3(us[0], b(u, us), us[0])'], RET),
    'deep': (['z = comb(us[0], comb(us[1], b(u, us)))'], RET),
    'deep_first': (['z = comb(comb(us[0], b(u, us)), us[0])'], RET),
    'loop': (['z = 0', 'for x in us:', '    z = z + comb(us[0], b(x, us))'], RET),
    'ret': ([], 'return (comb(us[0], b(u, us)), us[0] * KF, us[1])'),
}
ARGNEST_OUTER = ('comb', 'comb3')


def _build_argnest(desc) -> str:
    _, cctx, bctx, position = desc
    cdeco = '@fp.fpy' if CALLEE_CTX[cctx] is None else f'@fp.fpy(ctx={CALLEE_CTX[cctx]})'
    src = f'K = {K_VALUE}\nKF = {KF_VALUE}\nKG = {KG_VALUE}\n\n'
    src += _callee('b', bctx, *BODIES['mut']) + '\n'
    src += f'{cdeco}\ndef comb(p: fp.Real, q: fp.Real) -> fp.Real:\n    return p * 2 + q\n\n'
    src += f'{cdeco}\ndef comb3(p: fp.Real, q: fp.Real, r: fp.Real) -> fp.Real:\n    return p * 2 + q * r\n\n'
    lines, ret = ARGNEST_POSITIONS[position]
    body = '\n'.join('    ' + ln for ln in lines + [ret])
    return src + f'@fp.fpy\ndef f(u: fp.Real, v: fp.Real, us: list[fp.Real], n: fp.Real):\n{body}\n'


def all_argnests() -> list[tuple]:
    return [('argnest', cctx, bctx, position)
            for position in ARGNEST_POSITIONS for cctx in CALLEE_CTX for bctx in ('none', 'decl')]


# ---- two-callee family: a local of one callee is named like a free variable of another
# function of the program (the other callee's K, or the caller's KF) -------------------------------

TWO_BODIES = {
    'localK': ['K = x * x', 'return K + x'],
    'localKF': ['K = x * x', 'KF = K + x', 'return KF * x'],
}
TWO_LAYOUTS = {
    'one_stmt': ['z = g1(u, us) + g2(v, us)'],
    'one_stmt_rev': ['z = g2(v, us) + g1(u, us)'],
    'two_stmts': ['a = g1(u, us)', 'z = a * g2(v, us)'],
}


def _build_two(desc) -> str:
    _, gctx, body, layout, naming = desc
    src = f'K = {K_VALUE}\nKF = {KF_VALUE}\nKG = {KG_VALUE}\n\n'
    if naming == 'samename':
        # two DIFFERENT functions that carry the same `def` name, from two factories
        for factory, target, (params, lines) in (('_make_local', 'g1', (('x', 'xs'), TWO_BODIES[body])),
                                                 ('_make_global', 'g2', BODIES['glob'])):
            inner = _callee('g', gctx, params, lines)
            inner = '\n'.join('    ' + ln for ln in inner.rstrip('\n').split('\n'))
            src += f'def {factory}():\n{inner}\n    return g\n\n{target} = {factory}()\n\n'
    else:
        src += _callee('g1', gctx, ('x', 'xs'), TWO_BODIES[body]) + '\n'
        src += _callee('g2', gctx, *BODIES['glob']) + '\n'
    cbody = '\n'.join('    ' + ln for ln in TWO_LAYOUTS[layout] + [RET])
    return src + f'@fp.fpy\ndef f(u: fp.Real, v: fp.Real, us: list[fp.Real], n: fp.Real):\n{cbody}\n'


def all_twos() -> list[tuple]:
    return [('two', gctx, body, layout, naming) for naming in ('distinct', 'samename')
            for layout in TWO_LAYOUTS for body in TWO_BODIES for gctx in CALLEE_CTX]


def build(desc) -> str:
    """Source text of the program `desc` (module body after the loader prelude)."""
    if desc[0] == 'argnest':
        return _build_argnest(desc)
    if desc[0] == 'two':
        return _build_two(desc)
    if desc[0] == 'fact':
        return _build_fact(desc)
    if desc[0] == 'pin':
        return _build_pin(desc)
    head = f'K = {K_VALUE}\nKF = {KF_VALUE}\nKG = {KG_VALUE}\n\n'
    if desc[0] == 'pair':
        _, gctx, gbody, position, argform = desc
        params, lines = BODIES[gbody]
        return head + _callee('g', gctx, params, lines) + '\n' + _caller(position, argform)
    if desc[0] == 'chain':
        _, gctx, gchain, hctx, hbody, position = desc
        params, lines = BODIES[hbody]
        return (head + _callee('h', hctx, params, lines) + '\n'
                + _callee('g', gctx, ('x', 'xs'), CHAIN_BODIES[gchain]) + '\n'
                + _caller(position, 'A0'))
    raise ValueError(desc)


def describe(desc) -> dict:
    """The parts of a descriptor that name the program *shape* (for signatures)."""
    if desc[0] == 'pair':
        _, gctx, gbody, position, argform = desc
        return {'position': position, 'inner': '-', 'effect': effect_of([gbody]),
                'callee': gbody, 'callee_ctx': gctx, 'args': argform}
    if desc[0] == 'argnest':
        _, cctx, bctx, position = desc
        return {'position': f'argnest_{position}', 'inner': '-', 'effect': 'mutates-arg',
                'callee': 'comb(.., b(..))', 'callee_ctx': f'{cctx}>{bctx}', 'args': 'A0'}
    if desc[0] == 'two':
        _, gctx, body, layout, naming = desc
        return {'position': f'two_{layout}', 'inner': f'{body}/{naming}', 'effect': 'reads-global',
                'callee': f'{body}+glob', 'callee_ctx': gctx, 'args': 'A0'}
    if desc[0] == 'pin':
        _, fmt, mode, who, position = desc
        return {'position': f'pin_{position}', 'inner': f'{who}-pins', 'effect': 'pure',
                'callee': 'arith', 'callee_ctx': f'{fmt}/{mode}', 'args': 'A0'}
    if desc[0] == 'fact':
        _, gctx, fbody, layout, n, variant = desc
        return {'position': f'fact_{layout}', 'inner': f'{n}-callees-{variant}', 'effect': 'reads-captured',
                'callee': fbody, 'callee_ctx': gctx, 'args': 'A0'}
    _, gctx, gchain, hctx, hbody, position = desc
    return {'position': position, 'inner': gchain, 'effect': effect_of([hbody]),
            'callee': f'{gchain}>{hbody}', 'callee_ctx': f'{gctx}>{hctx}', 'args': 'A0'}


# ---- the enumerations --------------------------------------------------------

def all_pairs(argforms=('A0', 'A1')) -> list[tuple]:
    out = []
    for argform in argforms:
        for position in POSITION_KINDS:
            for gbody in BODY_KINDS:
                for gctx in CALLEE_CTX:
                    out.append(('pair', gctx, gbody, position, argform))
    return out


def all_chains() -> list[tuple]:
    out = []
    for position in CHAIN_POSITIONS:
        for gchain in CHAIN_KINDS:
            for hbody in BODY_KINDS:
                for gctx in CALLEE_CTX:
                    for hctx in CALLEE_CTX:
                        out.append(('chain', gctx, gchain, hctx, hbody, position))
    return out


# ---- inputs (u, v, us, n) as exact rationals ---------------------------------

INPUTS_QUICK = [
    ('21/16', '43/16', ['29/16', '11/16'], '2'),
    ('43/16', '21/16', ['3', '23/16'], '3'),
    ('13/16', '25/16', ['2', '3'], '2'),
    ('53/16', '9/16', ['1', '41/16', '3/4'], '2'),
    ('-23/16', '35/16', ['25/16', '-37/16'], '3'),
    ('2', '2', ['1', '1'], '1'),
    ('1', '3', ['2', '1'], '2'),
    ('87/16', '77/16', ['1/2', '97/16'], '4'),
]
INPUTS_THOROUGH = INPUTS_QUICK + [
    ('3', '1', ['1', '2', '3'], '2'),
    ('19/8', '37/32', ['45/32', '51/32'], '1'),
    ('5/4', '7/4', ['-3/4', '9/4'], '5'),
    ('33/16', '-17/16', ['27/16', '13/8', '2'], '3'),
]


_ARG_CACHE: dict = {}


def make_args(inp):
    """Fresh Python arguments for one call (lists are rebuilt every time)."""
    key = (inp[0], inp[1], tuple(inp[2]), inp[3])
    c = _ARG_CACHE.get(key)
    if c is None:
        u, v, us, n = inp
        c = (float(Fraction(u)), float(Fraction(v)), tuple(float(Fraction(e)) for e in us), int(n))
        _ARG_CACHE[key] = c
    return (c[0], c[1], list(c[2]), c[3])
