"""
Cooperative thread scheduler and preemption-bounded schedule search (CHESS
style), property-agnostic.

How it works
------------
* Every worker thread runs one *body* (a Python callable) on a real
  `threading.Thread`, but only the thread that holds the **baton** runs: each
  thread owns a semaphore and blocks on it; handing the baton over is
  `release(next)` followed by `acquire(own)`.
* A trace hook (`threading.settrace` -> installed as `sys.settrace` in every
  worker) turns selected events into **scheduling points**: the `call` event of
  every code object the `classify` callback labels, and the `line` events of
  the code objects it marks for line tracing (the check-then-act functions).
  At a point the running thread asks the scheduler which thread goes next.
* A **schedule** is a list of deviations `(decision index, thread, expected
  (thread, label))` from the default policy (keep running the current thread;
  when it terminates run the lowest-numbered live thread).  Switching away from
  a thread that could have continued is a *preemption*; switching at
  termination (and choosing who starts) is free.
* `explore()` enumerates, statelessly, all executions with 0 preemptions, then
  1, then 2 ... up to `bound`: every execution is run from scratch from a fresh
  state supplied by the caller (`make()`), runs to completion, and yields its
  children = one alternative choice at one later decision.  Each distinct
  schedule is run exactly once (children only branch after the parent's last
  deviation).
* While a schedule prefix is replayed the (thread, label) seen at each deviation
  must be the one recorded when the deviation was generated and the chosen
  thread must be live; anything else is a **divergence**: a hard error
  (`SchedulerError`), never a verdict.

Nothing here knows about fpy2.
"""

from __future__ import annotations

import hashlib
import sys
import threading
from typing import Any, Callable, Iterable, Optional

__all__ = ['SchedulerError', 'Execution', 'run_schedule', 'explore', 'free_run', 'ExploreStats']

HANG_TIMEOUT = 120.0


class SchedulerError(RuntimeError):
    """Harness failure (divergence, hang, trace hook misuse) -- not a verdict."""


class Execution:
    """What one complete execution produced."""

    __slots__ = ('results', 'trace', 'records', 'preemptions', 'devs', 'npoints', 'error')

    def __init__(self):
        self.results: list[Any] = []        # per thread: ('ok', value) | ('raise', text)
        self.trace: list[tuple] = []        # (thread, label) at every decision
        self.records: list[tuple] = []      # (idx, cur, cur_live, label, live threads, chosen) where a choice existed
        self.preemptions = 0
        self.devs: tuple = ()
        self.npoints = 0                    # scheduling points hit (yield points, not exits)
        self.error: Optional[str] = None

    def trace_digest(self) -> str:
        h = hashlib.sha1()
        for t, lab in self.trace:
            h.update(f'{t}:{lab};'.encode())
        return h.hexdigest()[:16]


class _Run:
    """One execution under a fixed schedule."""

    def __init__(self, bodies: list[Callable[[], Any]], classify: Callable, devs: Iterable[tuple],
                 on_point: Optional[Callable[[int, str], None]] = None):
        self.bodies = bodies
        self.n = len(bodies)
        self.classify = classify
        self.devs = [tuple(d) for d in devs]
        self.dev_i = 0
        self.on_point = on_point
        self.sems = [threading.Semaphore(0) for _ in bodies]
        self.done = threading.Semaphore(0)
        self.finished = [False] * self.n
        self.idx = 0
        self.ex = Execution()
        self.ex.devs = tuple(self.devs)
        self.ex.results = [None] * self.n
        self.last_dev_idx = self.devs[-1][0] if self.devs else -1
        self.cls: dict = {}
        self.local = threading.local()
        self.current: Optional[int] = None
        self.abort = False

    # ---- decisions (always executed by the baton holder) ---------------
    def _decide(self, cur: Optional[int], label: str, cur_live: bool) -> int:
        idx = self.idx
        self.idx += 1
        live = tuple(t for t in range(self.n) if not self.finished[t])
        default = cur if cur_live else live[0]
        choice = default
        if self.dev_i < len(self.devs) and self.devs[self.dev_i][0] == idx:
            _, choice, expect = self.devs[self.dev_i]
            self.dev_i += 1
            expect = tuple(expect) if expect is not None else None
            got = (cur, label)
            if expect is not None and (expect[0], expect[1]) != got:
                self._fail(f'divergence at decision {idx}: expected {expect}, now at {got}')
                choice = default
            elif choice not in live:
                self._fail(f'divergence at decision {idx}: thread {choice} is not live ({live})')
                choice = default
        if cur_live and choice != cur:
            self.ex.preemptions += 1
        self.ex.trace.append((cur, label))
        if len(live) >= 2 and idx > self.last_dev_idx:
            self.ex.records.append((idx, cur, cur_live, label, live, choice))
        return choice

    def _fail(self, msg: str):
        if self.ex.error is None:
            self.ex.error = msg

    def _point(self, tid: int, label: str):
        self.ex.npoints += 1
        if self.on_point is not None:
            self.on_point(tid, label)
        nxt = self._decide(tid, label, True)
        if nxt != tid:
            self.current = nxt
            self.sems[nxt].release()
            if not self.sems[tid].acquire(timeout=HANG_TIMEOUT):
                self._fail(f'thread {tid} never got the baton back')
                self.abort = True
                raise SystemExit

    # ---- trace hook -----------------------------------------------------
    def _trace(self, frame, event, arg):
        tid = getattr(self.local, 'tid', None)
        if tid is None:
            return None
        code = frame.f_code
        info = self.cls.get(code)
        if info is None:
            info = self.classify(code) or False
            self.cls[code] = info
        if info is False:
            return None
        label, lines = info
        if label:
            self._point(tid, 'call:' + label)
        if not lines:
            return None
        name = label or code.co_name
        first = code.co_firstlineno

        def ltrace(frame, event, arg, _name=name, _first=first, _tid=tid):
            if event == 'line':
                self._point(_tid, f'line:{_name}+{frame.f_lineno - _first}')
            return ltrace
        return ltrace

    # ---- threads ----------------------------------------------------------
    def _worker(self, tid: int):
        if not self.sems[tid].acquire(timeout=HANG_TIMEOUT):
            self._fail(f'thread {tid} never started')
            return
        self.local.tid = tid
        sys.settrace(self._trace)
        try:
            try:
                self.ex.results[tid] = ('ok', self.bodies[tid]())
            except SystemExit:
                self.ex.results[tid] = ('raise', 'scheduler abort')
            except BaseException as e:  # the body's own failure is an observation
                self.ex.results[tid] = ('raise', f'{type(e).__name__}: {e}')
        finally:
            sys.settrace(None)
            self.local.tid = None
        if self.abort:
            self.done.release()
            return
        self.finished[tid] = True
        if all(self.finished):
            self.done.release()
            return
        nxt = self._decide(tid, '<exit>', False)
        self.current = nxt
        self.sems[nxt].release()

    def run(self) -> Execution:
        threads = [threading.Thread(target=self._worker, args=(t,), daemon=True, name=f'vf-sched-{t}')
                   for t in range(self.n)]
        old = threading.gettrace() if hasattr(threading, 'gettrace') else None
        threading.settrace(self._trace)      # inherited by the workers' bootstrap; inert until local.tid is set
        try:
            for th in threads:
                th.start()
        finally:
            threading.settrace(old)          # type: ignore[arg-type]
        first = self._decide(None, '<start>', False)
        self.current = first
        self.sems[first].release()
        if not self.done.acquire(timeout=HANG_TIMEOUT * 2):
            self.abort = True
            raise SchedulerError(f'execution hung (schedule {self.devs}); error={self.ex.error}')
        for th in threads:
            th.join(timeout=HANG_TIMEOUT)
            if th.is_alive():
                raise SchedulerError(f'thread {th.name} did not terminate (schedule {self.devs})')
        if self.ex.error is None and self.dev_i != len(self.devs):
            self.ex.error = (f'divergence: deviations {self.devs[self.dev_i:]} were never reached '
                             f'({self.idx} decisions in this execution)')
        if self.ex.error is not None:
            raise SchedulerError(self.ex.error)
        return self.ex


def run_schedule(make: Callable[[], tuple[list[Callable[[], Any]], Any]], classify: Callable,
                 devs: Iterable[tuple] = (), on_point=None) -> tuple[Execution, Any]:
    """Runs ONE execution.  `make()` builds a fresh state and returns
    (bodies, state); the state object is handed back with the execution."""
    made = make()
    bodies, state = made[0], made[1]
    hook = made[2] if len(made) > 2 else on_point
    ex = _Run(bodies, classify, devs, hook).run()
    return ex, state


def children(ex: Execution) -> list[tuple[tuple, int]]:
    """All schedules one more deviation away: [(devs, preemptions)], in
    decision order.  Only decisions after the parent's last deviation branch."""
    out = []
    base = tuple(ex.devs)
    for idx, cur, cur_live, label, live, chosen in ex.records:
        for alt in live:
            if alt == chosen:
                continue
            cost = 1 if cur_live else 0
            out.append((base + ((idx, alt, (cur, label)),), ex.preemptions + cost))
    return out


class ExploreStats:
    def __init__(self):
        self.executions = 0
        self.by_preemptions: dict[int, int] = {}
        self.points_min = None
        self.points_max = 0
        self.points_sum = 0
        self.bound_completed = -1
        self.capped = False

    def add(self, ex: Execution):
        self.executions += 1
        self.by_preemptions[ex.preemptions] = self.by_preemptions.get(ex.preemptions, 0) + 1
        self.points_sum += ex.npoints
        self.points_max = max(self.points_max, ex.npoints)
        self.points_min = ex.npoints if self.points_min is None else min(self.points_min, ex.npoints)


def explore(make, classify, bound: int, visit: Callable[[Execution, Any], None],
            shard: tuple[int, int] = (0, 1), max_executions: Optional[int] = None) -> ExploreStats:
    """Preemption-bounded exhaustive search.

    Level b holds every schedule with exactly b preemptions; levels are
    completed in order 0, 1, ..., bound (the iterative context bounding of
    CHESS).  Sharding: level 0 is run by every shard (it is tiny: one execution
    per thread order) but *visited/counted* only by shard 0; the level-1
    schedules are numbered in generation order and shard k of m owns those with
    number % m == k, together with all their descendants.
    """
    k, m = shard
    stats = ExploreStats()
    levels: list[list[tuple]] = [[] for _ in range(bound + 2)]
    levels[0].append(())
    counter1 = 0
    for b in range(bound + 1):
        queue = levels[b]
        qi = 0
        while qi < len(queue):
            devs = queue[qi]
            qi += 1
            if max_executions is not None and stats.executions >= max_executions:
                stats.capped = True
                return stats
            ex, state = run_schedule(make, classify, devs)
            if ex.preemptions != b:
                raise SchedulerError(f'schedule {devs} ran with {ex.preemptions} preemptions, expected {b}')
            own = (b > 0) or (k == 0)
            if own:
                stats.add(ex)
                visit(ex, state)
            for cdevs, p in children(ex):
                if p > bound:
                    continue
                if b == 0 and p == 1:
                    mine = (counter1 % m == k)
                    counter1 += 1
                    if not mine:
                        continue
                levels[p].append(cdevs)
        levels[b] = []
        stats.bound_completed = b
    return stats


def free_run(make, runs: int, switch_interval: float = 1e-6) -> list[tuple[list, Any]]:
    """The same bodies on free-running real threads (no hook, no baton), with
    the interpreter's switch interval lowered.  A cheap cross-check that the
    cooperative hand-offs hide nothing; never the decider."""
    out = []
    old = sys.getswitchinterval()
    sys.setswitchinterval(switch_interval)
    try:
        for _ in range(runs):
            made = make()
            bodies, state = made[0], made[1]
            results: list[Any] = [None] * len(bodies)
            barrier = threading.Barrier(len(bodies))

            def work(t):
                try:
                    barrier.wait(timeout=HANG_TIMEOUT)
                    results[t] = ('ok', bodies[t]())
                except BaseException as e:
                    results[t] = ('raise', f'{type(e).__name__}: {e}')
            ths = [threading.Thread(target=work, args=(t,), daemon=True) for t in range(len(bodies))]
            for th in ths:
                th.start()
            for th in ths:
                th.join(timeout=HANG_TIMEOUT)
                if th.is_alive():
                    raise SchedulerError('free-running thread did not terminate')
            out.append((results, state))
    finally:
        sys.setswitchinterval(old)
    return out
