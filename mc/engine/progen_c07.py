"""
Bounded-exhaustive program enumerator for C07 (simplify / ConstFold /
CopyPropagate / DeadCodeEliminate).

A *family* is a small grammar aimed at one decision the passes make
(def-use validity of a copy, purity of a call, constancy of a list, the
statically active context of a fold, a constant condition).  For a family and
a size N the enumerator yields EVERY well-scoped program of exactly N
statements (simple statement = 1, compound statement = 1 + its bodies, the
final `return` = 1), in a fixed order; sizes are visited in increasing order,
so the first counterexample of a family is a shortest one.

Scoping model (FPy's): a name first bound inside a one-armed `if`, a `for`
or a `while` body is not visible afterwards; a name bound in both arms of an
`if/else` is; a `with` block does not open a scope.  Programs that read an
unbound name are never generated; the real front end still has the last word
(rejections are counted by the check, not run).

No randomness anywhere.
"""

from __future__ import annotations

from typing import Iterator, NamedTuple

# --------------------------------------------------------------------------
# grammar objects


class Atom(NamedTuple):
    text: str
    reads: frozenset
    writes: frozenset
    final: bool = False      # must be the last statement of a one-armed if body (early return)


class Wrap(NamedTuple):
    kind: str                # 'if1' | 'ifelse' | 'for' | 'while' | 'with'
    head: str                # header text; '{d}' is replaced by the nesting depth (loop counters)
    reads: frozenset


def A(text, reads='', writes='', final=False) -> Atom:
    return Atom(text, frozenset(reads.split()), frozenset(writes.split()), final)


def W(kind, head, reads='') -> Wrap:
    return Wrap(kind, head, frozenset(reads.split()))


class Family(NamedTuple):
    name: str
    decorator: str           # '@fp.fpy' or '@fp.fpy(ctx=...)'
    params: str              # parameter list text of f
    argnames: tuple          # which input axes f takes: subset of ('u', 'n')
    atoms: tuple
    wraps: tuple
    returns: tuple
    maxdepth: int
    sizes: dict              # tier -> (core max size, extra size for the seed-rotated slice or None)
    aim: str
    n_pool: dict | None = None   # tier -> trip counts, when the family needs more iterations than the default pool


# --------------------------------------------------------------------------
# helper callees (one module, loaded once per process; text is part of every replay case)

HELPERS = '''
@fp.fpy
def g_alias(xs: list[fp.Real]) -> fp.Real:
    ys = xs
    ys[0] = 9
    return 0

@fp.fpy
def g_row(xss: list[list[fp.Real]]) -> fp.Real:
    row = xss[0]
    row[0] = 9
    return 0

@fp.fpy
def g_param(xs: list[fp.Real]) -> fp.Real:
    xs[0] = 8
    return 0

@fp.fpy
def g_pure(xs: list[fp.Real]) -> fp.Real:
    return xs[0] + 1

@fp.fpy
def p_direct(xss: list[list[fp.Real]]) -> fp.Real:
    xss[0][0] = 5
    return 0

@fp.fpy
def p_row(xss: list[list[fp.Real]]) -> fp.Real:
    row = xss[0]
    row[0] = 5
    return 0

@fp.fpy
def p_store(xss: list[list[fp.Real]]) -> fp.Real:
    t = [[0.0]]
    t[0] = xss[0]
    t[0][0] = 5
    return 0

@fp.fpy
def p_lit(xss: list[list[fp.Real]]) -> fp.Real:
    t = [xss[0]]
    t[0][0] = 5
    return 0

@fp.fpy
def p_fresh(xss: list[list[fp.Real]]) -> fp.Real:
    t = [[0.0]]
    t[0] = [xss[0][0]]
    t[0][0] = 5
    return t[0][0]
'''
HELPER_NAMES = ('g_alias', 'g_row', 'g_param', 'g_pure',
                'p_direct', 'p_row', 'p_store', 'p_lit', 'p_fresh')
POKES = ('p_direct', 'p_row', 'p_store', 'p_lit', 'p_fresh')

C_SMALL_RTZ = 'fp.MPFloatContext(3, fp.RM.RTZ)'
C_SMALL_RAZ = 'fp.MPFloatContext(3, fp.RM.RAZ)'
C_FIXED = 'fp.MPFixedContext(-3, fp.RM.RTP)'
C_FP64 = 'fp.FP64'

_IF_U = (W('if1', 'if u > 0:', 'u'), W('ifelse', 'if u > 0:', 'u'))
_LOOPS = (W('for', 'for i{d} in range(n):', 'n'), W('while', 'while k{d} < n:', 'n'))

_SCALAR_ATOMS = (
    A('a = u', 'u', 'a'),
    A('b = a', 'a', 'b'),
    A('a = b', 'b', 'a'),
    A('a = a + 1', 'a', 'a'),
    A('b = b * 2', 'b', 'b'),
    A('a, b = (b, a)', 'a b', 'a b'),
    A('b = 2', '', 'b'),
)
_SCALAR_RETURNS = (A('return a', 'a'), A('return b', 'b'))

FAMILIES = (
    Family(
        name='scalar', decorator='@fp.fpy', params='u: fp.Real, n: fp.Real', argnames=('u', 'n'),
        atoms=_SCALAR_ATOMS, wraps=_IF_U + _LOOPS, returns=_SCALAR_RETURNS, maxdepth=2,
        sizes={'quick': (5, None), 'thorough': (6, None)},
        aim='copy whose source is reassigned before the use: straight-line, in an if arm, across a loop '
            'back-edge; tuple swap with one half unused; no declared context (only structure folds)'),
    Family(
        name='scalar_fp64', decorator=f'@fp.fpy(ctx={C_FP64})', params='u: fp.Real, n: fp.Real',
        argnames=('u', 'n'),
        atoms=_SCALAR_ATOMS, wraps=_IF_U + _LOOPS, returns=_SCALAR_RETURNS, maxdepth=2,
        sizes={'quick': (4, 5), 'thorough': (6, None)},
        aim='same grammar under a declared context, so arithmetic on constants folds: phi at a loop header or '
            'an if merge treated as a constant'),
    Family(
        name='alias', decorator='@fp.fpy', params='u: fp.Real, n: fp.Real', argnames=('u', 'n'),
        atoms=(
            A('xs = [1, 2]', '', 'xs'),
            A('xs = [u, 2]', 'u', 'xs'),
            A('ys = xs', 'xs', 'ys'),
            A('ys[0] = 5', 'ys', 'ys'),
            A('xs[0] = u', 'xs u', 'xs'),
            A('a = xs[0]', 'xs', 'a'),
            A('t = g_alias(xs)', 'xs', 't'),
            A('g_alias(ys)', 'ys', ''),
            A('t = g_param(xs)', 'xs', 't'),
            A('a = g_pure(xs)', 'xs', 'a'),
        ),
        wraps=(W('if1', 'if u > 0:', 'u'), W('for', 'for i{d} in range(n):', 'n')),
        returns=(A('return xs[0]', 'xs'), A('return ys[0]', 'ys'), A('return a', 'a'), A('return xs', 'xs')),
        maxdepth=1,
        sizes={'quick': (4, 5), 'thorough': (6, None)},
        aim='constant lists mutated through an alias and read through the other name; callee that writes its '
            'argument through a local alias called for effect (result unused / expression statement); a callee '
            'that writes its parameter directly; a pure callee'),
    Family(
        name='rows', decorator='@fp.fpy', params='u: fp.Real', argnames=('u',),
        atoms=(
            A('xss = [[1, 2], [3, 4]]', '', 'xss'),
            A('xss = [[u, 2], [3, 4]]', 'u', 'xss'),
            A('row = xss[0]', 'xss', 'row'),
            A('row[0] = 5', 'row', 'row'),
            A('xss[0][0] = 7', 'xss', 'xss'),
            A('a = xss[0][0]', 'xss', 'a'),
            A('t = g_row(xss)', 'xss', 't'),
        ),
        wraps=(W('if1', 'if u > 0:', 'u'),),
        returns=(A('return xss[0][0]', 'xss'), A('return row[0]', 'row'), A('return a', 'a')),
        maxdepth=1,
        sizes={'quick': (4, 5), 'thorough': (6, None)},
        aim='row of a nested list taken into a local and written; callee that writes a row of its argument'),
    Family(
        name='poke', decorator='@fp.fpy', params='u: fp.Real', argnames=('u',),
        atoms=(
            (A('xss = [[u, 2], [3, 4]]', 'u', 'xss'),)
            + tuple(A(f't = {p}(xss)', 'xss', 't') for p in POKES)
            + tuple(A(f'{p}(xss)', 'xss', '') for p in POKES)
            + (A('a = xss[0][0]', 'xss', 'a'),)
        ),
        wraps=(W('if1', 'if u > 0:', 'u'),),
        returns=(A('return xss[0][0]', 'xss'), A('return a', 'a')),
        maxdepth=1,
        sizes={'quick': (4, None), 'thorough': (5, None)},
        aim='helper called ONLY for its effect on a nested list (result bound to an unread name, or a bare '
            'expression statement) and the list read back afterwards; the helper writes a row of its argument '
            'directly (xss[0][0] = v), through a plain row alias (row = xss[0]; row[0] = v), through a row it '
            'stored into a list it built itself and then writes one level below the slot (t = [[0.0]]; '
            't[0] = xss[0]; t[0][0] = v), through a row held in a literal (t = [xss[0]]; t[0][0] = v), or -- the '
            'control -- only writes storage it built from fresh values: deleting the call is right only for the '
            'control'),
    Family(
        name='ctx', decorator='@fp.fpy', params='u: fp.Real', argnames=('u',),
        atoms=(
            A('a = 1 / 3', '', 'a'),
            A('a = a * 3', 'a', 'a'),
            A('b = a', 'a', 'b'),
            A('b = -0.0', '', 'b'),
            A('a = b + b', 'b', 'a'),
            A('a = u', 'u', 'a'),
        ),
        wraps=(W('with', f'with {C_SMALL_RTZ}:'), W('with', f'with {C_FIXED}:'),
               W('with', f'with {C_FP64} as c{{d}}:')),
        returns=(A('return a', 'a'), A('return b', 'b')),
        maxdepth=2,
        sizes={'quick': (4, 5), 'thorough': (5, None)},
        aim='constants computed under different statically active contexts and rounding modes (1/3 in a 3-bit '
            'float RTZ, in a fixed-point grid RTP, in binary64), -0.0, constants used under another context '
            'than the one that produced them, nested and sequential with blocks, unused `as` names'),
    Family(
        name='ctx_decl', decorator=f'@fp.fpy(ctx={C_SMALL_RAZ})', params='u: fp.Real', argnames=('u',),
        atoms=(
            A('a = 1 / 3', '', 'a'),
            A('a = a * 3', 'a', 'a'),
            A('b = a', 'a', 'b'),
            A('b = -0.0', '', 'b'),
            A('a = b + b', 'b', 'a'),
            A('a = u', 'u', 'a'),
        ),
        wraps=(W('with', f'with {C_SMALL_RTZ}:'), W('with', f'with {C_FP64}:')),
        returns=(A('return a', 'a'), A('return b', 'b')),
        maxdepth=1,
        sizes={'quick': (4, 5), 'thorough': (5, None)},
        aim='the same with a declared (3-bit, round-away) function context: folds happen at top level too'),
    Family(
        name='cond', decorator=f'@fp.fpy(ctx={C_FP64})', params='u: fp.Real', argnames=('u',),
        atoms=(
            A('a = 1', '', 'a'),
            A('a = u', 'u', 'a'),
            A('b = a', 'a', 'b'),
            A('a = a + 1', 'a', 'a'),
            A('pass', '', ''),
            A('return b', 'b', '', final=True),
        ),
        wraps=(W('if1', 'if a > 1:', 'a'), W('ifelse', 'if a > 1:', 'a'),
               W('if1', 'if True:'), W('ifelse', 'if False:'), W('if1', 'if u > 0:', 'u')),
        returns=(A('return a', 'a'), A('return b', 'b')),
        maxdepth=2,
        sizes={'quick': (4, 5), 'thorough': (6, None)},
        aim='constant and foldable conditions, branches removed or flattened, early return inside a branch, '
            'empty bodies, redefinition in one arm'),
    Family(
        name='tuple', decorator=f'@fp.fpy(ctx={C_FP64})', params='u: fp.Real', argnames=('u',),
        atoms=(
            A('a, b = (u, 1)', 'u', 'a b'),
            A('a, b = (b, a)', 'a b', 'a b'),
            A('a, t = (b, g_alias(xs))', 'b xs', 'a t'),
            A('p = (a, b)', 'a b', 'p'),
            A('a, b = p', 'p', 'a b'),
            A('xs = [a, b]', 'a b', 'xs'),
            A('b = a', 'a', 'b'),
            A('a = a + 1', 'a', 'a'),
        ),
        wraps=(W('if1', 'if u > 0:', 'u'),),
        returns=(A('return a', 'a'), A('return b', 'b'), A('return xs[0]', 'xs'), A('return p', 'p')),
        maxdepth=1,
        sizes={'quick': (4, 5), 'thorough': (6, None)},
        aim='tuple targets partly or wholly unused (binding scrubbed to `_`, statement dropped when the right '
            'side is judged pure), tuple values packed and unpacked, a mutating call inside a tuple'),
    Family(
        name='loop_tuple', decorator=f'@fp.fpy(ctx={C_FP64})', params='n: fp.Real', argnames=('n',),
        atoms=(
            A('a, b, c = (0, 1, 0)', '', 'a b c'),
            A('a, b = (b, a)', 'a b', 'a b'),
            A('a, b = (b, a + b)', 'a b', 'a b'),
            A('c = c + a', 'a c', 'c'),
            A('c = a', 'a', 'c'),
            A('b = b + 1', 'b', 'b'),
        ),
        wraps=_LOOPS,
        returns=(A('return c', 'c'), A('return a', 'a'), A('return b', 'b')),
        maxdepth=1,
        sizes={'quick': (4, 5), 'thorough': (6, None)},
        n_pool={'quick': [0, 1, 3, 4], 'thorough': [0, 1, 2, 3, 4, 5]},
        aim='tuple destructuring inside a for/while body over loop-carried names initialised to constants, with '
            'uses of the destructured names later in the same iteration (swap, Fibonacci step): a constant of '
            'the first analysis pass must not survive the widening of the loop-header merges; needs >= 3 trips'),
    Family(
        name='loop_cond', decorator='@fp.fpy', params='n: fp.Real', argnames=('n',),
        atoms=(
            A('m = n', 'n', 'm'),
            A('p = m', 'm', 'p'),
            A('n = n - 1', 'n', 'n'),
            A('n = 0', '', 'n'),
        ),
        wraps=(W('while', 'while k{d} < m:', 'm'), W('while', 'while k{d} < p:', 'p'),
               W('for', 'for i{d} in range(m):', 'm'), W('for', 'for i{d} in range(p):', 'p'),
               W('if1', 'if n > 1:', 'n')),
        returns=(A('return k0', 'k0'), A('return n', 'n'), A('return m', 'm')),
        maxdepth=2,
        sizes={'quick': (5, None), 'thorough': (6, None)},
        n_pool={'quick': [0, 2, 4], 'thorough': [0, 1, 2, 3, 4, 5]},
        aim='a copy (or a copy of a copy) taken before a loop and read in the while CONDITION (re-evaluated '
            'against the loop-header merges) or in the for iterable (evaluated once), while the copied source is '
            'reassigned in the body, plainly or under an if; the trip count is returned; limits never grow, so '
            'every loop terminates'),
    Family(
        name='ctx_arg', decorator=f'@fp.fpy(ctx={C_FP64})', params='n: fp.Real', argnames=('n',),
        atoms=(
            A('a = 1 / 3', '', 'a'),
            A('a = 0.1 + 0.2', '', 'a'),
            A('a = a * 3', 'a', 'a'),
            A('b = a', 'a', 'b'),
            A('b = -0.0 * 3', '', 'b'),
        ),
        wraps=(W('with', 'with fp.MPFloatContext(n, fp.RM.RTZ):', 'n'),
               W('with', 'with fp.MPFixedContext(-n, fp.RM.RTP):', 'n'),
               W('with', f'with {C_SMALL_RAZ}:')),
        returns=(A('return a', 'a'), A('return b', 'b')),
        maxdepth=2,
        sizes={'quick': (4, None), 'thorough': (5, None)},
        n_pool={'quick': [2, 5], 'thorough': [1, 2, 3, 5, 8]},
        aim='with blocks whose context is built from a run-time argument (precision / grid given by n), directly '
            'under the declared function context and nested inside a statically known with: all-constant inexact '
            'operations inside them must not be folded under the enclosing context'),
)

FAMILY_BY_NAME = {f.name: f for f in FAMILIES}


# --------------------------------------------------------------------------
# enumeration

def _indent(lines, n=1):
    pad = '    ' * n
    return tuple(pad + ln for ln in lines)


class _Enum:
    def __init__(self, fam: Family):
        self.fam = fam
        self.memo: dict = {}

    def stmts(self, k: int, defined: frozenset, depth: int, allow_final: bool):
        """All single statements of size k: (lines, defined_after, is_final)."""
        fam = self.fam
        out = []
        if k == 1:
            for at in fam.atoms:
                if at.final and not allow_final:
                    continue
                if at.reads <= defined:
                    out.append(((at.text,), defined | at.writes, at.final))
            return out
        if depth >= fam.maxdepth:
            return out
        for w in fam.wraps:
            if not (w.reads <= defined):
                continue
            head = w.head.replace('{d}', str(depth))
            if w.kind == 'ifelse':
                for i in range(1, k - 1):
                    j = k - 1 - i
                    for b1, d1 in self.blocks(i, defined, depth + 1, False):
                        for b2, d2 in self.blocks(j, defined, depth + 1, False):
                            lines = (head,) + _indent(b1) + ('else:',) + _indent(b2)
                            out.append((lines, defined | (d1 & d2), False))
            elif w.kind == 'if1':
                for b, _ in self.blocks(k - 1, defined, depth + 1, True):
                    out.append(((head,) + _indent(b), defined, False))
            elif w.kind == 'for':
                for b, _ in self.blocks(k - 1, defined, depth + 1, False):
                    out.append(((head,) + _indent(b), defined, False))
            elif w.kind == 'while':
                ctr = f'k{depth}'
                for b, _ in self.blocks(k - 1, defined, depth + 1, False):
                    lines = (f'{ctr} = 0', head) + _indent(b + (f'{ctr} = {ctr} + 1',))
                    # the counter is initialised in the enclosing block, so it is readable after the loop
                    out.append((lines, defined | {ctr}, False))
            elif w.kind == 'with':
                for b, d in self.blocks(k - 1, defined, depth + 1, False):
                    out.append(((head,) + _indent(b), d, False))
            else:
                raise ValueError(w.kind)
        return out

    def blocks(self, s: int, defined: frozenset, depth: int, allow_final: bool):
        """All statement lists of total size exactly s (s >= 1): [(lines, defined_after)]."""
        key = (s, defined, depth, allow_final)
        hit = self.memo.get(key)
        if hit is not None:
            return hit
        out = []
        for k in range(1, s + 1):
            rest = s - k
            for lines, d_after, is_final in self.stmts(k, defined, depth, allow_final and rest == 0):
                if rest == 0:
                    out.append((lines, d_after))
                elif not is_final:
                    for more, d2 in self.blocks(rest, d_after, depth, allow_final):
                        out.append((lines + more, d2))
        self.memo[key] = out
        return out

    def programs(self, size: int) -> Iterator[str]:
        """Every program of exactly `size` statements (body of size-1, then a return)."""
        fam = self.fam
        params = frozenset(fam.argnames)
        if size < 2:
            return
        for body, defined in self.blocks(size - 1, params, 0, False):
            for ret in fam.returns:
                if ret.reads <= defined:
                    yield render(fam, body + (ret.text,))


def render(fam: Family, body_lines, fname: str = 'f') -> str:
    return '\n'.join((fam.decorator, f'def {fname}({fam.params}):') + _indent(tuple(body_lines))) + '\n'


def enumerate_family(fam: Family, max_size: int, min_size: int = 2) -> Iterator[tuple[int, str]]:
    """(size, source of `f`) for every program of the family with min_size <= size <= max_size."""
    en = _Enum(fam)
    for size in range(min_size, max_size + 1):
        for src in en.programs(size):
            yield size, src


def count_family(fam: Family, max_size: int) -> dict:
    en = _Enum(fam)
    return {size: sum(1 for _ in en.programs(size)) for size in range(2, max_size + 1)}


if __name__ == '__main__':
    import sys
    top = int(sys.argv[1]) if len(sys.argv) > 1 else 6
    for fam in FAMILIES:
        print(fam.name, count_family(fam, top))
