"""Registry through which generated FPy modules obtain pre-built objects (contexts)."""
REG: dict = {}
