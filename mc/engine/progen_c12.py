"""
Bounded-exhaustive enumerator of FPy programs in the FPCore-expressible subset
for C12 (translation to and from FPCore preserves meaning).

Nothing is sampled.  Two families (plus four hand-written shapes, family X):

K  *kernel grammar*: every block-structure tree with at most N nodes and depth
   at most D over the node kinds

       S  simple update of `a` / `b` (taken from a fixed schedule, in program order)
       A  one-variable while loop (leaf)
       W  `with <ctx>:` block                       (>= 1 child)
       E  if / else                                 (>= 1 child per arm)
       I  if without else                           (>= 1 child)
       H  counted while loop (counter + the variables its body updates)
       L  `for x in us:`  over the list argument    (>= 0 children)
       R  `for i in range(...)`                      (>= 0 children)

   x every assignment of a context of the inner pool to the W nodes x every
   outer context (the whole body sits in `with <outer>:`) x the return forms
   x the schedule rotations of the tier.  A `with` block may be followed by
   further statements of the enclosing block (sequential and nested blocks with
   a continuation), which is the shape FPCore's expression-scoped `!` annotation
   makes hard to translate.

T  *feature templates*: straight-line programs over tuples (construction,
   destructuring, nested), fixed-size lists (literal, index read, index write,
   comprehension), `sum` / `any` / `all` / `len` / `min` / `max`, if-expressions;
   x every contiguous range of statements wrapped in an inner `with` (or none)
   x (outer, inner) context pairs.

A program is kept as a small tree so that the check can also render its
*sunk* variant -- every statement that follows a `with` block moved to the end of
that block -- which is what a translation that nests the continuation under the
block's annotation would mean; the check uses it only to *name* a violation.
"""

from __future__ import annotations

import itertools
from functools import lru_cache

# ---------------------------------------------------------------------------
# contexts: binary16/32/64 x nearestEven/toZero/toPositive/toNegative, integer

CONTEXTS = {}
for _p, _base in (('H', 'fp.FP16'), ('S', 'fp.FP32'), ('D', 'fp.FP64')):
    for _rm in ('RNE', 'RTZ', 'RTP', 'RTN'):
        CONTEXTS[f'{_p}_{_rm}'] = f'{_base}.with_params(rm=fp.RM.{_rm})'
CONTEXTS['INT'] = 'fp.INTEGER'                                  # round toZero
CONTEXTS['I_RNE'] = 'fp.INTEGER.with_params(rm=fp.RM.RNE)'

PRELUDE = 'import fpy2 as fp\n' + ''.join(f'{k} = {v}\n' for k, v in CONTEXTS.items()) + '\n'

SIG = {
    'scalar': 'def f(u: fp.Real, v: fp.Real):',
    'list': 'def f(us: list[fp.Real], u: fp.Real, v: fp.Real):',
}


# ---------------------------------------------------------------------------
# statement trees

def S(line):
    return ('s', line)


def W(ctx, body):
    return ('with', ctx, list(body))


def render(items, ind=1):
    out = []
    pad = '    ' * ind
    for it in items:
        k = it[0]
        if k == 's':
            out.append(pad + it[1])
        elif k == 'with':
            out.append(f'{pad}with {it[1]}:')
            out.extend(render(it[2], ind + 1))
        elif k == 'if':
            out.append(f'{pad}if {it[1]}:')
            out.extend(render(it[2], ind + 1))
            if it[3] is not None:
                out.append(f'{pad}else:')
                out.extend(render(it[3], ind + 1))
        elif k == 'while':
            out.append(f'{pad}while {it[1]}:')
            out.extend(render(it[2], ind + 1))
        elif k == 'for':
            out.append(f'{pad}for {it[1]} in {it[2]}:')
            out.extend(render(it[3], ind + 1))
        else:
            raise ValueError(k)
    return out


def source(sig: str, items) -> str:
    return '@fp.fpy\n' + SIG[sig] + '\n' + '\n'.join(render(items)) + '\n'


def sink(items):
    """every statement following a `with` block moved to the end of that block,
    recursively: if the block itself ends in a `with`, the moved statements go on
    into that one (this is the nesting a translation produces that hands the
    continuation to the block body and wraps the result in the annotation)."""
    out = []
    for it in reversed(items):
        k = it[0]
        if k == 'with':
            out = [('with', it[1], sink(list(it[2]) + out))]
            continue
        if k == 'if':
            it = ('if', it[1], sink(it[2]), None if it[3] is None else sink(it[3]))
        elif k == 'while':
            it = ('while', it[1], sink(it[2]))
        elif k == 'for':
            it = ('for', it[1], it[2], sink(it[3]))
        out = [it] + out
    return out


class Prog:
    __slots__ = ('family', 'key', 'sig', 'items', 'tags')

    def __init__(self, family, key, sig, items, tags):
        self.family = family
        self.key = key
        self.sig = sig
        self.items = items
        self.tags = tags

    @property
    def src(self):
        return source(self.sig, self.items)

    @property
    def sunk_src(self):
        s = source(self.sig, sink(self.items))
        return None if s == self.src else s

    def __repr__(self):
        return f'Prog({self.family}:{self.key})'


# ---------------------------------------------------------------------------
# family K: kernel grammar

LEAVES = ('S', 'A')
ONE_BLOCK = ('W', 'I', 'H')          # need >= 1 child
LOOP_ANY = ('L', 'R')                # prefix statement makes the body non-empty


@lru_cache(maxsize=None)
def forests(n: int, d: int, kinds: tuple):
    """all forests (tuples of trees) with exactly n nodes, depth <= d"""
    if n == 0:
        return ((),)
    out = []
    for k in range(1, n + 1):
        ts = trees(k, d, kinds)
        if not ts:
            continue
        rests = forests(n - k, d, kinds)
        for t in ts:
            for rest in rests:
                out.append((t,) + rest)
    return tuple(out)


@lru_cache(maxsize=None)
def trees(k: int, d: int, kinds: tuple):
    out = []
    if k == 1:
        for kind in LEAVES:
            if kind in kinds:
                out.append((kind, ()))
    if d <= 0:
        # loops over an argument with only their prefix statement are leaves too
        if k == 1:
            for kind in LOOP_ANY:
                if kind in kinds:
                    out.append((kind, ((),)))
        return tuple(out)
    for kind in LOOP_ANY:
        if kind in kinds:
            for f in forests(k - 1, d - 1, kinds):
                out.append((kind, (f,)))
    if k >= 2:
        for kind in ONE_BLOCK:
            if kind in kinds:
                for f in forests(k - 1, d - 1, kinds):
                    out.append((kind, (f,)))
        if 'E' in kinds and k >= 3:
            for i in range(1, k - 1):
                for f1 in forests(i, d - 1, kinds):
                    for f2 in forests(k - 1 - i, d - 1, kinds):
                        out.append(('E', (f1, f2)))
    return tuple(out)


def skel_text(forest) -> str:
    def t(node):
        kind, blocks = node
        if not blocks:
            return kind
        return kind + ''.join('(' + ''.join(t(c) for c in b) + ')' for b in blocks)
    return ''.join(t(n) for n in forest)


def count_kind(forest, kind) -> int:
    n = 0
    for k, blocks in forest:
        if k == kind:
            n += 1
        for b in blocks:
            n += count_kind(b, kind)
    return n


UPDATES = (
    'a = a + b',
    'b = a * b',
    'a = a - fp.round(0.1)',
    'b = fp.round(b) / a',
    'a = fp.sqrt(abs(b)) + a',
    'b = fp.fma(a, b, u)',
)
CONDS = ('a < b', 'abs(b) <= u', 'a * b > v')
RANGES = ('range(3)', 'range(1, 3)', 'range(0, 5, 2)')
RETURNS = {'pair': 'return (a, b)', 'op': 'return a * b + u', 'var': 'return a'}


def fill(forest, ctxs, rot: int):
    """abstract skeleton -> statement tree; `ctxs` are the contexts of the W nodes in
    program order; `rot` rotates the update / condition / range schedules."""
    st = {'s': rot, 'c': rot, 'r': rot, 'loop': 0, 'w': 0}

    def block(f):
        out = []
        for kind, blocks in f:
            if kind == 'S':
                out.append(S(UPDATES[st['s'] % len(UPDATES)]))
                st['s'] += 1
            elif kind == 'A':
                out.append(('while', 'abs(a) < fp.round(40)', [S('a = abs(a) * fp.round(2) + fp.round(1)')]))
            elif kind == 'W':
                ctx = ctxs[st['w']]
                st['w'] += 1
                out.append(('with', ctx, block(blocks[0])))
            elif kind in ('E', 'I'):
                cond = CONDS[st['c'] % len(CONDS)]
                st['c'] += 1
                then = block(blocks[0])
                els = block(blocks[1]) if kind == 'E' else None
                out.append(('if', cond, then, els))
            elif kind == 'H':
                st['loop'] += 1
                k = f'k{st["loop"]}'
                out.append(S(f'{k} = fp.round(0)'))
                body = block(blocks[0])
                body.append(S(f'{k} = {k} + fp.round(1)'))
                out.append(('while', f'{k} < fp.round(2)', body))
            elif kind == 'L':
                st['loop'] += 1
                x = f'x{st["loop"]}'
                out.append(('for', x, 'us', [S(f'a = a + {x}')] + block(blocks[0])))
            elif kind == 'R':
                st['loop'] += 1
                i = f'i{st["loop"]}'
                rng = RANGES[st['r'] % len(RANGES)]
                st['r'] += 1
                out.append(('for', i, rng, [S(f'b = b + {i}')] + block(blocks[0])))
            else:
                raise ValueError(kind)
        return out
    return block(forest)


def kernel_programs(sizes, depth, kinds, outer_pool, inner_pool, returns, rots, max_withs=None):
    """yields Prog; deterministic order (size, skeleton, outer, inner assignment, return, rotation)"""
    kinds = tuple(kinds)
    for n in sizes:
        for forest in forests(n, depth, kinds):
            nw = count_kind(forest, 'W')
            if max_withs is not None and nw > max_withs:
                continue
            sk = skel_text(forest)
            sig = 'list' if count_kind(forest, 'L') else 'scalar'
            for outer in outer_pool:
                for inner in itertools.product(inner_pool, repeat=nw):
                    for rot in rots:
                        body = [S('a = u'), S('b = v')] + fill(forest, inner, rot)
                        for rname in returns:
                            items = [W(outer, body + [S(RETURNS[rname])])]
                            key = f'K/{sk}/{outer}/{",".join(inner)}/{rname}/r{rot}'
                            yield Prog('K', key, sig, items,
                                       {'skeleton': sk, 'outer': outer, 'inner': ','.join(inner), 'ret': rname,
                                        'rot': rot, 'size': n})


# ---------------------------------------------------------------------------
# family T: feature templates (straight-line; an inner `with` around every
# contiguous range of statements)

TEMPLATES = {
    # name: (signature, statements, return forms)
    'tuple': ('scalar', ['t = (a + b, a * b)', 'c, d = t', 'a = c / d', 'b = d - c'],
              ['return (a, b)', 'return a + b']),
    'nested': ('scalar', ['t = (a, (b, a + b))', 'x, (y, z) = t', 'a = x * z + y', 'b = z - a'],
               ['return (a, (z, b))']),
    'nested2': ('scalar', ['t = ((a, b), (a + b, a * b))', '(p, q), (r, s) = t', 'a = p * s + q', 'b = r - a'],
                ['return (a, b, q, r)']),
    'zip': ('scalar', ['xs = [a, b, a + b]', 'ys = [b, a * b, a]', 'zs = [x * y - x for x, y in zip(xs, ys)]',
                       'c = sum(zs)'],
            ['return (c, zs)']),
    'list': ('scalar', ['xs = [a + b, a * b, a]', 'c = xs[0] + xs[2]', 'xs[1] = c * a', 'd = xs[1] - xs[0]'],
             ['return (c, d)', 'return xs']),
    'comp': ('scalar', ['xs = [a + b, a * b, a]', 'ys = [x * b for x in xs]', 'c = sum(ys)', 'd = c + a'],
             ['return d', 'return ys']),
    'any': ('scalar', ['xs = [a, b, a + b]', 'bs = [x < a * b for x in xs]', 'r = any(bs)',
                       'c = a + b if r else a * b'],
            ['return (r, c)', 'return r']),
    'all': ('scalar', ['xs = [a, b, a + b]', 'bs = [x * a <= b for x in xs]', 'r = all(bs)',
                       'c = a - b if r else a / b'],
            ['return (r, c)', 'return c']),
    'minmax': ('scalar', ['c = min(a, b)', 'd = max(a + b, a * b)', 'a = c + d', 'b = min(a, c, d)'],
               ['return (a, b)']),
    'argsum': ('list', ['c = sum(us) + a', 'd = us[0] * c', 'bs = [x < c for x in us]', 'r = all(bs) or any(bs)'],
               ['return (c, d, r)']),
    'whilemin': ('scalar', ['c = abs(a) + fp.round(1)',
                            ('while', 'min(c, fp.round(30)) < fp.round(20)', [('s', 'c = c * fp.round(2) + abs(b)')]),
                            'd = c - a', 'b = d * c'],
                 ['return (c, d, b)']),
    'arglen': ('list', ['n = len(us)', 'ys = [x * a + b for x in us]', 'bs = [y > a for y in ys]',
                        'c = a + n if any(bs) else b * n'],
               ['return (c, ys)', 'return all(bs)']),
}


def _item(x):
    return S(x) if isinstance(x, str) else x


def template_programs(names, pairs):
    """pairs: (outer, inner) contexts.  Every contiguous range [i, j) of the template's
    statements + its return wrapped in `with inner:`; a range may take in the return only
    as its last element."""
    for name in names:
        sig, stmts, rets = TEMPLATES[name]
        for ri, ret in enumerate(rets):
            lines = stmts + [ret]
            n = len(lines)
            ranges = [None] + [(i, j) for i in range(n) for j in range(i + 1, n + 1)]
            seen_unsplit = set()
            for outer, inner in pairs:
                for rg in ranges:
                    if rg is None:
                        # the unsplit program does not depend on `inner`: once per outer
                        if outer in seen_unsplit:
                            continue
                        seen_unsplit.add(outer)
                        body = [_item(x) for x in lines]
                        rkey = 'none'
                    else:
                        i, j = rg
                        body = [_item(x) for x in lines[:i]] + [W(inner, [_item(x) for x in lines[i:j]])] + \
                               [_item(x) for x in lines[j:]]
                        rkey = f'{i}-{j}'
                    items = [W(outer, [S('a = u'), S('b = v')] + body)]
                    key = f'T/{name}/ret{ri}/{outer}/{inner if rg else "-"}/{rkey}'
                    yield Prog('T', key, sig, items,
                               {'skeleton': f'{name}[{rkey}]', 'outer': outer, 'inner': inner if rg else '-',
                                'ret': f'ret{ri}', 'rot': 0, 'size': n})


# ---------------------------------------------------------------------------
# a few hand-written shapes the grammar does not reach (return outside every
# block, blocks at function level in sequence, a block that only holds the return)

def extra_programs(pairs):
    for outer, inner in pairs:
        forms = {
            'seq-top': [W(outer, [S('a = u + v')]), W(inner, [S('b = a * u')]), S('return b')],
            'seq-top-tail': [W(outer, [S('a = u + v')]), W(inner, [S('b = a * u'), S('return b - a')])],
            'ret-only': [W(outer, [S('a = u / v'), W(inner, [S('b = a * a')]), W(outer, [S('return b + a')])])],
            'three-deep': [W(outer, [S('a = u + v'),
                                     W(inner, [S('b = a * u'), W(outer, [S('c = b / v')]), S('b = c - fp.round(0.1)')]),
                                     S('return (b + a, c)')])],
        }
        for name, items in forms.items():
            yield Prog('X', f'X/{name}/{outer}/{inner}', 'scalar', items,
                       {'skeleton': name, 'outer': outer, 'inner': inner, 'ret': '-', 'rot': 0, 'size': 3})


# ---------------------------------------------------------------------------
# layer R: FPCore *texts* read directly (not produced by the FPy compiler).
# function-level property set x body shape x inner annotation(s).  An inner
# annotation may set only :precision, only :round, or both, and may sit two
# deep (a partial one inside another partial one): what it does not set it
# inherits -- from the enclosing annotation, the core's properties, or the
# standard's defaults (binary64, nearestEven).

R_FUNC_PROPS = {
    'none': '',
    'P32': ':precision binary32',
    'Rz': ':round toZero',
    'P32Rz': ':precision binary32 :round toZero',
    'P16': ':precision binary16',
    'Rp': ':round toPositive',
    'P16Rp': ':precision binary16 :round toPositive',
    'P32Rp': ':precision binary32 :round toPositive',
    'P64Rn': ':precision binary64 :round toNegative',
}
R_ANN = {
    'none': None,
    'P16': ':precision binary16',
    'P64': ':precision binary64',
    'Rz': ':round toZero',
    'Rp': ':round toPositive',
    'Re': ':round nearestEven',
    'P16Rz': ':precision binary16 :round toZero',
    'P32Rn': ':precision binary32 :round toNegative',
}
# two-deep nestings (outer, inner): a partial annotation inside a partial one
R_NESTED = [('P16', 'Rz'), ('Rz', 'P16'), ('P16', 'Rp'), ('Rp', 'P64'), ('P64', 'Rz'), ('Rz', 'Re'),
            ('P16', 'P64'), ('Rp', 'Rz'), ('P16Rz', 'Re'), ('Rz', 'P32Rn')]


def _ann(name, e):
    a = R_ANN[name]
    return e if a is None else f'(! {a} {e})'


# shapes with one annotated position {A}: (name, template)
R_SHAPES_1 = [
    ('add', '{A:(+ x y)}'), ('sub', '{A:(- x y)}'), ('mul', '{A:(* x y)}'), ('div', '{A:(/ x 3)}'),
    ('divxy', '{A:(/ x y)}'), ('sqrt', '{A:(sqrt (fabs x))}'), ('fma', '{A:(fma x y 1/3)}'),
    ('inner-op', '(+ {A:(/ x y)} (* x y))'), ('outer-op', '{A:(+ (/ x y) (* x y))}'),
    ('let-val', '(let ([a {A:(/ x y)}]) (* a y))'), ('let-body', '(let ([a (/ x y)]) {A:(* a x)})'),
    ('let-whole', '{A:(let ([a (/ x y)]) (* a x))}'),
    ('if-arm', '(if (< x y) {A:(/ x y)} (- x 1/3))'), ('if-cond', '(if {A:(< (/ x 3) (* y 1/3))} (/ x y) (* x y))'),
    ('if-whole', '{A:(if (< x y) (/ x y) (* x 1/3))}'),
    ('while-update', '(while (< i 3) ([i 0 (+ i 1)] [a x {A:(/ a 3)}]) (* a y))'),
    ('while-whole', '{A:(while (< i 3) ([i 0 (+ i 1)] [a x (+ (/ a 3) y)]) a)}'),
    ('while-body', '(while (< i 2) ([i 0 (+ i 1)] [a x (/ a 3)]) {A:(* a y)})'),
    ('literal', '(* x {A:0.1})'), ('cast', '{A:(cast (/ x 3))}'),
]
# shapes with an outer {A} and an inner {B} position
R_SHAPES_2 = [
    ('nest-op', '{A:(+ {B:(/ x y)} (* x y))}'),
    ('nest-direct', '{A:{B:(/ x 3)}}'),
    ('nest-let', '{A:(let ([a {B:(/ x y)}]) (* a 1/3))}'),
    ('nest-if', '{A:(if (< x y) {B:(/ x y)} (* x 1/3))}'),
    ('nest-while', '{A:(while (< i 3) ([i 0 (+ i 1)] [a x {B:(/ a 3)}]) (* a y))}'),
]


def _fill(template: str, anns: dict) -> str:
    """replaces {A:expr} / {B:expr} (possibly nested) by the annotated expr"""
    out = []
    i = 0
    while i < len(template):
        c = template[i]
        if c == '{' and template[i + 2] == ':':
            slot = template[i + 1]
            depth, j = 1, i + 3
            while depth:
                if template[j] == '{':
                    depth += 1
                elif template[j] == '}':
                    depth -= 1
                j += 1
            inner = _fill(template[i + 3:j - 1], anns)
            out.append(_ann(anns[slot], inner))
            i = j
        else:
            out.append(c)
            i += 1
    return ''.join(out)


class Core:
    __slots__ = ('key', 'text', 'tags')

    def __init__(self, key, text, tags):
        self.key = key
        self.text = text
        self.tags = tags


def read_cores(func_sets, ann_names, nested_pairs):
    for fname in func_sets:
        fprops = R_FUNC_PROPS[fname]
        head = '(FPCore (x y) ' + (fprops + ' ' if fprops else '')
        for sname, tmpl in R_SHAPES_1:
            for a in ann_names:
                text = head + _fill(tmpl, {'A': a}) + ')'
                yield Core(f'R/{fname}/{sname}/{a}', text,
                           {'func': fname, 'shape': sname, 'ann': a, 'family': 'R', 'key': f'R/{fname}/{sname}/{a}'})
        for sname, tmpl in R_SHAPES_2:
            for a, b in nested_pairs:
                text = head + _fill(tmpl, {'A': a, 'B': b}) + ')'
                key = f'R/{fname}/{sname}/{a}>{b}'
                yield Core(key, text, {'func': fname, 'shape': sname, 'ann': f'{a}>{b}', 'family': 'R', 'key': key})


# ---------------------------------------------------------------------------
# family V: if/else (and loop bodies) that *introduce* a variable in addition to
# mutating existing ones.  The bundling passes pack "mutated + introduced" into a
# tuple and unpack it after the statement, so the new name is chosen to sort
# before, between and after the mutated names `a`, `b` (`Aq` < `a` < `aa` < `b`
# < `zz` as strings), every subset of {a, b} is mutated, the introduction comes
# first or last in the arm, and the statement stands at function level, in a for
# over range, in a for over the list argument, in a counted while, and after / in
# an inner `with`.  The new variable is always used after the if/else.

V_NAMES = ('Aq', 'aa', 'zz')
V_MUTATED = (('a',), ('b',), ('a', 'b'))
V_PLACES = ('top', 'for-range', 'for-list', 'while', 'after-with', 'in-with', 'body-intro')


def _v_if(new, mutated, intro_first):
    then_m = {'a': 'a = a + fp.round(2)', 'b': 'b = b * fp.round(3)'}
    else_m = {'a': 'a = a - fp.round(0.1)', 'b': 'b = b + fp.round(1)'}
    then = [S(then_m[v]) for v in mutated]
    els = [S(else_m[v]) for v in mutated]
    ti, ei = S(f'{new} = a * fp.round(10) + b'), S(f'{new} = b * fp.round(100) - a')
    then = [ti] + then if intro_first else then + [ti]
    els = [ei] + els if intro_first else els + [ei]
    return ('if', 'a < b', then, els)


def intro_programs(outers, inner, names=V_NAMES, mutated_sets=V_MUTATED, places=V_PLACES):
    for outer in outers:
        for place in places:
            for new in names:
                for mutated in mutated_sets:
                    for intro_first in (True, False):
                        stmt = _v_if(new, mutated, intro_first)
                        use = S(f'a = a / {new} + b')
                        sig = 'scalar'
                        if place == 'top':
                            body = [stmt, use]
                        elif place == 'for-range':
                            body = [('for', 'i1', 'range(3)', [S('b = b + i1'), stmt, use])]
                        elif place == 'for-list':
                            sig = 'list'
                            body = [('for', 'x1', 'us', [S('a = a + x1'), stmt, use])]
                        elif place == 'while':
                            body = [S('k1 = fp.round(0)'),
                                    ('while', 'k1 < fp.round(2)', [stmt, use, S('k1 = k1 + fp.round(1)')])]
                        elif place == 'after-with':
                            body = [W(inner, [S('a = a * b')]), stmt, use]
                        elif place == 'in-with':
                            body = [W(inner, [stmt]), use]
                        elif place == 'body-intro':
                            # a loop body that introduces a variable (no branch) and uses it later in the body
                            if intro_first:
                                continue
                            upd = [S({'a': 'a = a + fp.round(2)', 'b': 'b = b * fp.round(3)'}[v]) for v in mutated]
                            body = [('for', 'i1', 'range(3)', [S(f'{new} = a * fp.round(10) + i1')] + upd + [use]),
                                    S('k1 = fp.round(0)'),
                                    ('while', 'k1 < fp.round(2)',
                                     [S(f'{new} = b - k1')] + upd + [S(f'b = b + {new}'), S('k1 = k1 + fp.round(1)')])]
                        else:
                            raise ValueError(place)
                        items = [W(outer, [S('a = u'), S('b = v')] + body + [S('return (a, b)')])]
                        key = f'V/{place}/{new}/{"".join(mutated)}/{"intro-first" if intro_first else "intro-last"}/{outer}'
                        yield Prog('V', key, sig, items,
                                   {'skeleton': f'{place}:{new}:{"".join(mutated)}', 'outer': outer, 'inner': inner,
                                    'ret': 'pair', 'rot': 0, 'size': 3})


# ---------------------------------------------------------------------------
# family Z: the sign of a zero made observable *by value*.  A zero is selected
# (min / max of 2 and 3 operands in both orders, min / max / sum of a list,
# if-expression arms) or produced (a product with a zero) and the program returns
# 1 / z (so that +-0 becomes +-inf), copysign(1, z) (+-1) and z itself; the
# argument vectors of this family hold +0.0 and -0.0 in both orders.

Z_SCALAR = {
    'max2': 'c = max(a, b)', 'max2r': 'c = max(b, a)', 'min2': 'c = min(a, b)', 'min2r': 'c = min(b, a)',
    'max3': 'c = max(a, b, a * b)', 'max3r': 'c = max(a * b, b, a)', 'min3': 'c = min(a, b, a * b)',
    'min3r': 'c = min(a * b, b, a)',
    'ifeq': 'c = a if a == b else b', 'ifge': 'c = b if a >= b else a',
    'mul': 'c = a * b', 'mulzero': 'c = a * fp.round(0)', 'negmul': 'c = (-a) * b',
}
Z_LIST = {'amax': 'c = max(us)', 'amin': 'c = min(us)', 'sum': 'c = sum(us)', 'amaxmix': 'c = max(max(us), a)'}
Z_RETURNS = {'recip': 'return fp.round(1) / c', 'copysign': 'return fp.copysign(fp.round(1), c)',
             'raw': 'return (c, fp.round(1) / c)'}


def zero_programs(outers):
    for outer in outers:
        for sig, table in (('scalar', Z_SCALAR), ('list', Z_LIST)):
            for name, stmt in table.items():
                for rname, ret in Z_RETURNS.items():
                    items = [W(outer, [S('a = u'), S('b = v'), S(stmt), S(ret)])]
                    key = f'Z/{name}/{rname}/{outer}'
                    yield Prog('Z', key, sig, items,
                               {'skeleton': f'{name}:{rname}', 'outer': outer, 'inner': '-', 'ret': rname, 'rot': 0,
                                'size': 2})
