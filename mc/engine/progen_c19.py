"""
C19 helpers: a bounded-exhaustive generator of site-rich FPy programs in which
every statement carries a unique marker, and an *independent* reading of a
program (own statement/expression walk, own path arithmetic, own candidate
enumeration) that the check compares the library's listings, edit logs and
forwarded cursors against.

Nothing here calls fpy2.transform.path / cursor helpers to decide anything: the
walks below read the AST classes directly, paths are plain tuples
``(i0, field0, i1, field1, ..., in)`` and "beneath" is tuple-prefix.
"""

from __future__ import annotations

import itertools
import re

# ----------------------------------------------------------------------------
# Grammar
#
# A program is  prologue ; units... ; epilogue  inside
#     @fp.fpy(ctx=fp.REAL) def f(u, v, us)
# A unit is a leaf template (1-2 statements) or a container with a body of
# units.  Markers are 7-digit literals 7000001, 7000002, ... handed out in
# pre-order; a rounding statement `r7000004 = fp.round(a)` cannot hold a literal
# so its *target name* is the marker.  Markers never sit inside call arguments
# (inlining moves arguments into a preamble that is not part of the statement's
# image).  Programs are never executed, so termination is not a concern.

HELPERS = '''
@fp.fpy
def g1(p: fp.Real) -> fp.Real:
    q = p * 9000001
    return q + 9000002

@fp.fpy
def g2(p: fp.Real) -> fp.Real:
    if p > 9000003:
        return p + 9000004
    return p - 9000005

@fp.fpy
def g3(p: fp.Real) -> fp.Real:
    w = g1(p) + 9000006
    return w * g1(w)

'''

# user rewrite rules (fpy2.rewrite.Rewrite): statement rules 1->2, 1->1, 2->1 and an expression rule
HELPERS += """
@fp.pattern
def sl_l(y, m):
    y = y + m

@fp.pattern
def sl_r(y, m):
    y = m + y
    y = y - 0

@fp.pattern
def ss_r(y, m):
    y = m + y

@fp.pattern
def sh_l(y, m, n):
    y = y + m
    y = y + n

@fp.pattern
def sh_r(y, m, n):
    y = (m + y) + n

@fp.pattern
def em_l(p, m):
    p * m

@fp.pattern
def em_r(p, m):
    fp.fma(p, m, 0)

"""

CTX_FLOAT = 'fp.FP16'                         # special, overflow, float_to_fixed act
CTX_REAL = 'fp.REAL'                          # every rounding rewrite refuses
CTX_MPFIX = 'fp.MPFixedContext(-8, enable_nan=True, enable_inf=True)'   # special, neg_zero, rescale act
CTX_SAT = 'fp.FixedContext(True, -4, 12, overflow=fp.OV.SATURATE)'      # overflow, rescale act

# leaf name -> list of statement templates; {m0},{m1} are markers, in order
LEAVES: dict[str, list[str]] = {
    'A':   ['a = a + {m0}'],
    'RfU': [f'with {CTX_FLOAT}:\n    r{{m0}} = fp.round(a)', 'a = r{m0} + {m1}'],
    'Rr':  [f'with {CTX_REAL}:\n    r{{m0}} = fp.round(a)'],
    'Rx':  [f'with {CTX_MPFIX}:\n    r{{m0}} = fp.round(a)'],
    'Rs':  [f'with {CTX_SAT}:\n    r{{m0}} = fp.round(a)'],
    'R2':  [f'with {CTX_FLOAT}:\n    r{{m0}} = fp.round(a)\n    r{{m1}} = fp.round(u)'],
    'Rc':  [f'with {CTX_FLOAT}:\n    r{{m0}} = fp.cast(a)'],
    'Rn':  [f'with {CTX_FLOAT}:\n    r{{m0}} = fp.round(a + {{m1}})'],
    'C1':  ['a = g1(a) + {m0}'],
    'C2':  ['a = g2(a) + {m0}'],
    'C11': ['a = g1(a) + g1(u) * {m0}'],
    'C3':  ['a = g3(a) + {m0}'],
    'Cn':  ['a = g1(g1(a)) + {m0}'],
    'M2':  ['a = (a * {m0}) - u'],
    # insert_round material: `{h}` names an FP16-rounded value, so `{h} * {h}` is exact under REAL and
    # provably representable in FP64 -- a site where a block can be put, a refusal where it cannot
    'R0':  [f'with {CTX_FLOAT}:\n    r{{m0}} = fp.round(u)'],
    'Xs':  ['a = {h} * {h} + {m0}'],                          # statement level: a real site
    'Xe':  ['a = ({h} * {h} if a > {m0} else {h})'],          # if-expression arm: no place for a block
    'Xc':  ['a = sum([{h} * {h} for z in us]) + {m0}'],       # comprehension element: no place for a block
    # indexed assignments with candidate sites in the index expression(s) AND in the assigned value
    # (the only statement kind with two expression fields): calls (inline), products (the expression
    # rule) and exact arithmetic (insert_round); every candidate of one statement has its own text
    'J1':  ['us[g1(u)] = g1(a) + {m0}'],
    'J2':  ['ws = [[u, {m0}], [v, u]]', 'ws[g1(u)][g1(v)] = g1(a) + {m1}'],
    'X1':  ['us[{h} * {h}] = ({h} + {h}) * {h} + {m0}'],
    'X2':  ['ws = [[v, {m0}], [u, v]]', 'ws[{h} * {h}][{h} * u] = ({h} + {h}) * {h} + {m1}'],
}
LEAF_MARKERS = {'A': 1, 'RfU': 2, 'Rr': 1, 'Rx': 1, 'Rs': 1, 'R2': 2, 'Rc': 1, 'Rn': 2,
                'C1': 1, 'C2': 1, 'C11': 1, 'C3': 1, 'Cn': 1, 'M2': 1, 'R0': 1, 'Xs': 1, 'Xe': 1, 'Xc': 1,
                'J1': 1, 'J2': 2, 'X1': 1, 'X2': 2}

# container name -> (header template, number of bodies, header markers)
CONTAINERS: dict[str, tuple[str, int, int]] = {
    'F':  ('for x{n} in us:', 1, 0),
    'Fs': ('for x{n} in [u, v, {m0}]:', 1, 1),           # statically 3 elements
    'Fr': ('for x{n} in range(4):', 1, 0),               # statically 4 elements
    'W':  ('while a < {m0}:', 1, 1),
    'Wc': ('while g1(a) < {m0}:', 1, 1),                 # call inline must refuse
    'I':  ('if a > {m0}:', 1, 1),
    'Ic': ('if g1(a) > {m0}:', 1, 1),                    # call in a compound header
    'IE': ('if a > {m0}:', 2, 1),
    # exact, representable arithmetic in a compound header (see 'R0'): never a place for a block
    'Fh': ('for x{n} in [{h} * {h}, {m0}]:', 1, 1),
    'Wh': ('while {h} * {h} < {m0}:', 1, 1),
    'Ih': ('if {h} * {h} > {m0}:', 1, 1),
}

MARKER_BASE = 7000000


class _Alloc:
    def __init__(self):
        self.m = MARKER_BASE
        self.n = 0
        self.h = 'u'       # the FP16-rounded name headers may use; set by leaf 'R0'

    def marker(self) -> int:
        self.m += 1
        return self.m

    def loopvar(self) -> int:
        self.n += 1
        return self.n


def _indent(text: str, by: str = '    ') -> str:
    return '\n'.join(by + ln for ln in text.split('\n'))


def render_units(units, alloc: _Alloc) -> list[str]:
    """units: list of unit; unit = 'Leaf' | ('Container', [units], ...)."""
    out: list[str] = []
    for u in units:
        if isinstance(u, str):
            ms = {f'm{i}': alloc.marker() for i in range(LEAF_MARKERS[u])}
            if u == 'R0':
                alloc.h = f'r{ms["m0"]}'
            for t in LEAVES[u]:
                out.append(t.format(h=alloc.h, **ms))
        else:
            name, *bodies = u
            header, nb, nm = CONTAINERS[name]
            assert len(bodies) == nb, u
            ms = {f'm{i}': alloc.marker() for i in range(nm)}
            text = header.format(n=alloc.loopvar(), h=alloc.h, **ms)
            text += '\n' + _indent('\n'.join(render_units(bodies[0], alloc)))
            if nb == 2:
                text += '\nelse:\n' + _indent('\n'.join(render_units(bodies[1], alloc)))
            out.append(text)
    return out


def render_program(units, ret: str = 'plain') -> str:
    """Full module source (helpers + f) for a unit tree."""
    alloc = _Alloc()
    body = [f'a = u + {alloc.marker()}']
    body += render_units(units, alloc)
    if ret == 'round':
        # a returned round: a structurally matching block whose rewrite needs a temp
        body.append(f'with {CTX_FLOAT}:\n    return fp.round(a)')
    else:
        body.append(f'return a + {alloc.marker()}')
    src = HELPERS
    src += '@fp.fpy(ctx=fp.REAL)\n'
    src += 'def f(u: fp.Real, v: fp.Real, us: list[fp.Real]) -> fp.Real:\n'
    src += _indent('\n'.join(body)) + '\n'
    return src


def unit_str(units) -> str:
    parts = []
    for u in units:
        if isinstance(u, str):
            parts.append(u)
        else:
            name, *bodies = u
            parts.append(name + ''.join('[' + unit_str(b) + ']' for b in bodies))
    return ' '.join(parts)


# Skeletons: loop nests (2-4 loops at different depths) with two leaf slots '_'
# each; the fixed leaves make sure every leaf kind, a refused rounding block and
# a refused call occur somewhere whatever the slots hold.
SKELETONS: list[tuple[str, list, str]] = [
    ('K1', ['_', 'Rs', ('F', ['_']), 'Rr', ('W', ['C1'])], 'plain'),
    ('K2', [('F', ['_', ('F', ['_', 'A'])]), 'C2'], 'plain'),
    ('K3', [('W', [('W', ['_']), 'Rs']), ('F', ['_'])], 'round'),
    ('K4', [('F', [('W', ['_']), 'R2']), ('Fs', ['_'])], 'plain'),
    ('K5', [('I', [('F', ['_'])]), 'Rn', ('W', [('F', ['_'])])], 'plain'),
    ('K6', [('Fs', ['_', ('Fr', ['_'])]), ('Wc', ['M2'])], 'round'),
    ('K7', [('F', ['Rc']), ('F', [('F', ['_']), '_']), ('W', ['Cn'])], 'plain'),
    ('K8', [('IE', [('W', ['_'])], [('W', ['_'])]), ('Ic', ['C3']), ('F', ['C11'])], 'plain'),
    # arithmetic where insert_round cannot put a block, with marked statements before and after
    ('H1', ['R0', ('Fh', ['_']), 'Xs', ('Wh', ['Xe']), 'A'], 'plain'),
    ('H2', ['R0', 'Xs', ('Ih', [('Fh', ['A']), 'Xc']), ('W', ['_'])], 'plain'),
    # several matches of the user rules `y = y + m` (...) at different depths: a match directly
    # followed by a sibling whose block starts with another, a nested match before an outer one,
    # adjacent matches
    ('P1', ['A', ('I', ['A', '_']), ('W', ['A', 'A']), ('F', ['A'])], 'plain'),
    ('P2', [('F', [('IE', ['A'], ['_']), 'A']), 'A', 'A', ('W', ['M2', 'A'])], 'plain'),
    # indexed assignments holding sites in their indices and in their value (no slots: one program each)
    ('S1', ['R0', 'J1', ('W', ['X1']), 'A'], 'plain'),
    ('S2', ['R0', ('W', ['J2']), 'X2', ('I', ['J1'])], 'plain'),
    # small nests for the deeper histories
    ('D1', [('F', ['_']), ('W', ['_'])], 'plain'),
    ('D2', [('F', [('W', ['_'])]), '_'], 'plain'),
    ('D3', [('W', ['_', ('F', ['_'])])], 'round'),
]


def _count_slots(units) -> int:
    n = 0
    for u in units:
        if u == '_':
            n += 1
        elif not isinstance(u, str):
            for b in u[1:]:
                n += _count_slots(b)
    return n


def _fill(units, it):
    out = []
    for u in units:
        if u == '_':
            out.append(next(it))
        elif isinstance(u, str):
            out.append(u)
        else:
            out.append((u[0], *[_fill(b, it) for b in u[1:]]))
    return out


def fill_skeleton(skel, leaves) -> list:
    it = iter(leaves)
    return _fill(skel, it)


def enumerate_programs(skeleton_names, alphabet):
    """Every named skeleton x every assignment of its slots from `alphabet`, in
    a fixed order.  Yields (name, units, ret)."""
    for kname, skel, ret in SKELETONS:
        if kname not in skeleton_names:
            continue
        n = _count_slots(skel)
        for combo in itertools.product(alphabet, repeat=n):
            yield (f'{kname}[{",".join(combo)}]', fill_skeleton(skel, combo), ret)


# ----------------------------------------------------------------------------
# Independent reading of a FuncDef

from fpy2.ast import fpyast as A          # noqa: E402  (AST classes only)
from fpy2.function import Function        # noqa: E402
from fpy2.number import Context, REAL     # noqa: E402
import fpy2 as _fp                        # noqa: E402


def sub_blocks(stmt) -> list[tuple[str, object]]:
    if isinstance(stmt, A.IfStmt):
        return [('ift', stmt.ift), ('iff', stmt.iff)]
    if isinstance(stmt, (A.If1Stmt, A.WhileStmt, A.ForStmt, A.ContextStmt)):
        return [('body', stmt.body)]
    return []


def walk(func_ast) -> list[tuple[tuple, object]]:
    """Every statement with its tuple path, a statement before its blocks."""
    out = []

    def go(block, prefix):
        for i, s in enumerate(block.stmts):
            here = prefix + (i,)
            out.append((here, s))
            for field, sub in sub_blocks(s):
                go(sub, here + (field,))

    go(func_ast.body, ())
    return out


def beneath(p: tuple, q: tuple) -> bool:
    """p is at or under statement q (both statement paths)."""
    return len(p) >= len(q) and p[:len(q)] == q


def strictly_beneath(p: tuple, q: tuple) -> bool:
    return len(p) > len(q) and p[:len(q)] == q


def ref_forward(edits, p: tuple):
    """Reference model of one pass: where statement path `p` of the source lands.

    `edits` are (block_prefix, index, removed, inserted) in source terms and
    disjoint.  Returns ('stmt', new_path), ('region', new_block_prefix, start, n)
    when `p` itself was consumed by an edit, or ('inside',) when an enclosing
    statement was consumed (the subtree was rebuilt: nothing to name)."""
    new: tuple = ()
    i = 0
    while i < len(p):
        old_block = p[:i]
        idx = p[i]
        shift = 0
        hit = None
        for blk, e_idx, rem, ins in edits:
            if blk != old_block:
                continue
            if e_idx + rem <= idx:
                shift += ins - rem
            elif e_idx <= idx:
                hit = (e_idx, rem, ins)
        last = i == len(p) - 1
        if hit is not None:
            if not last:
                return ('inside',)
            # the shift counts edits wholly before the consumed run
            return ('region', new, hit[0] + shift, hit[2])
        new = new + (idx + shift,)
        if not last:
            new = new + (p[i + 1],)
        i += 2
    return ('stmt', new)


def ref_chain(chain, p0: tuple):
    """Replay of the reported edit logs of a whole history on statement path p0.

    Returns ('stmt', path) | ('region', block_prefix, start, n) | ('raise', why).
    A statement consumed by an edit forwards to what replaced it (one statement:
    a statement; several: a region; none: an error); a region forwards member by
    member and must stay one run in one block (cursor.EditLog docstrings)."""
    cur = ('stmt', p0)
    for edits in chain:
        if cur[0] == 'stmt':
            nxt = ref_forward(edits, cur[1])
            if nxt[0] == 'inside':
                return ('raise', 'inside a rewritten statement')
            if nxt[0] == 'region':
                _, blk, start, n = nxt
                if n == 0:
                    return ('raise', 'deleted')
                if n == 1:
                    nxt = ('stmt', blk + (start,))
            cur = nxt
            continue
        _, blk, start, n = cur
        spans = []
        blocks = set()
        for off in range(n):
            img = ref_forward(edits, blk + (start + off,))
            if img[0] == 'inside':
                return ('raise', 'inside a rewritten statement')
            if img[0] == 'stmt':
                blocks.add(img[1][:-1])
                spans.append((img[1][-1], img[1][-1] + 1))
            else:
                if img[3] == 0:
                    return ('raise', 'deleted')
                blocks.add(img[1])
                spans.append((img[2], img[2] + img[3]))
        ok = all(b[0] in (a[1], a[0]) for a, b in zip(spans, spans[1:]))
        if len(blocks) != 1 or not ok:
            return ('raise', 'region no longer one run')
        lo, hi = spans[0][0], max(sp[1] for sp in spans)
        nb = blocks.pop()
        cur = ('stmt', nb + (lo,)) if hi - lo == 1 else ('region', nb, lo, hi - lo)
    return cur


def path_tuple(stmt_path) -> tuple:
    """fpy2 StmtPath -> tuple, read off the dataclass fields."""
    out: list = []
    p = stmt_path
    while True:
        out.append(p.index)
        blk = p.parent
        if type(blk).__name__ == 'FuncBody':
            break
        out.append(blk.field)
        p = blk.parent
    return tuple(reversed(out))


def block_tuple(block_path) -> tuple:
    """fpy2 BlockPath -> tuple prefix (ends with a field name, or empty)."""
    if type(block_path).__name__ == 'FuncBody':
        return ()
    return path_tuple(block_path.parent) + (block_path.field,)


def to_stmt_path(t: tuple):
    from fpy2.strategies import FuncBody
    p = FuncBody().stmt(t[0])
    i = 1
    while i < len(t):
        p = p.block(t[i]).stmt(t[i + 1])
        i += 2
    return p


def expr_stmt_tuple(expr_path) -> tuple:
    p = expr_path
    while type(p).__name__ == 'ExprPath':
        p = p.parent
    return path_tuple(p)


def _slots(node):
    seen = set()
    for cls in type(node).__mro__:
        for s in getattr(cls, '__slots__', ()):
            if s not in seen:
                seen.add(s)
                yield s


def child_exprs(node) -> list:
    """Direct sub-expressions of a statement or expression, by reflection over
    the node's own fields (blocks excluded)."""
    out = []

    def take(v):
        if isinstance(v, A.Expr):
            out.append(v)
        elif isinstance(v, (list, tuple)):
            for x in v:
                take(x)

    for s in _slots(node):
        if s in ('_loc', 'fn'):
            continue
        try:
            v = getattr(node, s)
        except AttributeError:
            continue
        if isinstance(v, A.StmtBlock):
            continue
        take(v)
    return out


def all_exprs(node) -> list:
    """All expressions under a statement header / expression, pre-order."""
    out = []

    def go(e):
        out.append(e)
        for c in child_exprs(e):
            go(c)

    for c in child_exprs(node):
        go(c)
    return out


def _ctx_is_real(ctx_expr) -> bool | None:
    """Whether a `with` context expression denotes REAL (None: cannot tell)."""
    if isinstance(ctx_expr, A.ForeignVal):
        v = ctx_expr.val
        return v is REAL or (isinstance(v, Context) and v == REAL)
    text = ctx_expr.format()
    if text in ('fp.REAL', 'REAL'):
        return True
    if isinstance(ctx_expr, (A.Attribute, A.Call)):
        return False
    return None


ROUNDABLE = (A.Add, A.Sub, A.Mul, A.Abs, A.Neg, A.Round, A.Cast)


def rounding_block_shape(stmt, casts: bool) -> bool:
    """`with C:` (no `as`) whose body is entirely `x = fp.round(v)` (or
    `fp.cast(v)` where `casts`) or a returned one, v a variable; written from
    the strategies' docstrings."""
    if not isinstance(stmt, A.ContextStmt):
        return False
    if not isinstance(stmt.target, A.UnderscoreId):
        return False
    if not stmt.body.stmts:
        return True
    for s in stmt.body.stmts:
        if isinstance(s, A.Assign):
            if not isinstance(s.target, A.NamedId) or s.type is not None:
                return False
        elif not isinstance(s, A.ReturnStmt):
            return False
        e = s.expr
        ok = isinstance(e, A.Round) or (casts and isinstance(e, A.Cast))
        if not ok or not isinstance(e.arg, A.Var):
            return False
    return True


class Reading:
    """Own view of one program version."""

    def __init__(self, func_ast):
        self.ast = func_ast
        self.stmts = walk(func_ast)                       # [(path, node)]
        self.by_path = dict(self.stmts)
        self._text: dict[tuple, str] = {}

    def text(self, p: tuple) -> str:
        t = self._text.get(p)
        if t is None:
            t = self.by_path[p].format()
            self._text[p] = t
        return t

    def text_counts(self) -> dict[str, int]:
        c: dict[str, int] = {}
        for p, _ in self.stmts:
            t = self.text(p)
            c[t] = c.get(t, 0) + 1
        return c

    # ---- candidate sets ------------------------------------------------
    def stmts_of(self, cls) -> list[tuple]:
        return [p for p, s in self.stmts if isinstance(s, cls)]

    def rounding_blocks(self, casts: bool) -> list[tuple]:
        return [p for p, s in self.stmts if rounding_block_shape(s, casts)]

    def fpy_calls(self, funcs=None) -> list:
        """Call nodes whose callee is an FPy Function (filtered by `funcs`)."""
        out = []
        for _, s in self.stmts:
            for e in all_exprs(s):
                if isinstance(e, A.Call) and isinstance(e.fn, Function):
                    if funcs is None or any(e.fn is g for g in funcs):
                        out.append(e)
        return out

    # ---- candidates of the user rules (written from the patterns) ------------
    def self_increments(self) -> list[tuple]:
        """`y = y + m`: an assignment to a name of a sum whose first operand is that name."""
        out = []
        for p, s in self.stmts:
            if isinstance(s, A.Assign) and isinstance(s.target, A.NamedId) and type(s.expr) is A.Add:
                first = s.expr.first
                if isinstance(first, A.Var) and first.name == s.target:
                    out.append(p)
        return out

    def increment_pairs(self) -> list[tuple]:
        """`y = y + m; y = y + n`: two adjacent self-increments of one name (first paths)."""
        inc = set(self.self_increments())
        out = []
        for p in self.self_increments():
            q = p[:-1] + (p[-1] + 1,)
            if q in inc and self.by_path[q].target == self.by_path[p].target:
                out.append(p)
        return out

    def products(self) -> list:
        out = []
        for _, s in self.stmts:
            out.extend(e for e in all_exprs(s) if type(e) is A.Mul)
        return out

    def count_fpy_calls(self) -> int:
        return len(self.fpy_calls())

    def count_ctx_stmts(self) -> int:
        return sum(1 for _, s in self.stmts if isinstance(s, A.ContextStmt))

    def exact_roundables(self) -> tuple[list, bool]:
        """Roundable operations whose innermost enclosing context is REAL.
        Returns (nodes, certain): certain=False if some scope was not readable."""
        out = []
        certain = True
        fctx = self.ast.ctx
        top = (fctx is REAL) or (isinstance(fctx, Context) and fctx == REAL)
        if fctx is None or not isinstance(fctx, Context):
            certain = False

        def go(block, real):
            nonlocal certain
            for s in block.stmts:
                if real:
                    for e in all_exprs(s):
                        if isinstance(e, ROUNDABLE):
                            out.append(e)
                if isinstance(s, A.ContextStmt):
                    r = _ctx_is_real(s.ctx)
                    if r is None:
                        certain = False
                        r = real
                    go(s.body, r)
                else:
                    for _, sub in sub_blocks(s):
                        go(sub, real)

        go(self.ast.body, top)
        return out, certain


# ----------------------------------------------------------------------------
# Markers

_LIT = re.compile(r'(?<![\w.])(7\d{6})\b')
_DEF = re.compile(r'\br(7\d{6}) = ')


def tokens(text: str) -> frozenset[str]:
    """Marker tokens in a piece of program text: literal markers `L7000001`
    and rounding definitions `D7000004` (from `r7000004 = ...`)."""
    return frozenset(['L' + m for m in _LIT.findall(text)] + ['D' + m for m in _DEF.findall(text)])
