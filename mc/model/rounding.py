"""
The rounding oracle (DESIGN §3.1).  No import of fpy2.

A format is described by a `Spec` built only from constructor parameters (and,
for encodable formats, from the decoded value set).  `round_model` returns the
*set of admissible outcomes* for rounding an extended real under the spec, a
rounding mode name, an overflow mode name and an optional position `n`.

Outcome = (value, inexact, overflow) with value an `X` or the string 'ERR';
`None` for a flag (or `sign_open`) means the statement leaves it open.
"""

from __future__ import annotations

from dataclasses import dataclass, field
from fractions import Fraction
from typing import Optional

from .xreal import X

MODES = ('RNE', 'RNA', 'RTP', 'RTN', 'RTZ', 'RAZ', 'RTO', 'RTE')
OVERFLOWS = ('OVERFLOW', 'SATURATE', 'WRAP', 'ASSERT')


@dataclass
class Spec:
    kind: str                                  # 'float' | 'fixed' | 'real'
    p: Optional[int] = None                    # float: max precision
    emin: Optional[int] = None                 # float: min normalized exponent (None = unbounded below)
    nmin: Optional[int] = None                 # fixed: first unrepresentable digit (quantum 2^(nmin+1))
    maxpos: Optional[Fraction] = None          # largest value (None = unbounded)
    maxneg: Optional[Fraction] = None          # smallest value (<= 0)
    has_nan: bool = True
    has_inf: bool = True
    has_negzero: bool = True
    # what a NaN operand becomes when NaN is not representable: list of X, or 'ERR'
    nan_sub: object = 'ERR'
    # what an infinite operand / an overflow to infinity becomes when infinity is not
    # representable: callable sign -> list of admissible X, or 'ERR'
    inf_sub: object = 'ERR'
    label: str = ''

    def quantum_exp(self, e: int, n: Optional[int]) -> Optional[int]:
        """exponent k of the spacing 2^k of the (unbounded) format around a value
        whose floor(log2|x|) is e, restricted to multiples of 2^(n+1)."""
        ks = []
        if self.kind == 'float':
            ks.append(e - self.p + 1)
            if self.emin is not None:
                ks.append(self.emin - self.p + 1)
        elif self.kind == 'fixed':
            ks.append(self.nmin + 1)
        if n is not None:
            ks.append(n + 1)
        return max(ks) if ks else None


def ilog2(q: Fraction) -> int:
    """floor(log2 |q|) for q != 0, exactly."""
    q = abs(q)
    n, d = q.numerator, q.denominator
    e = n.bit_length() - d.bit_length()
    # 2^e <= q < 2^(e+1) up to one step
    if Fraction(2) ** e > q:
        e -= 1
    elif Fraction(2) ** (e + 1) <= q:
        e += 1
    assert Fraction(2) ** e <= q < Fraction(2) ** (e + 1)
    return e


def scaled_floor(q: Fraction, k: int):
    """(floor(|q| / 2^k), exact?)"""
    t = abs(q) / (Fraction(2) ** k)
    n = t.numerator // t.denominator
    return n, t.denominator == 1


def neighbours(spec: Spec, q: Fraction, n: Optional[int] = None):
    """For a non-zero rational q returns (lo, hi, kept, half, sticky) where lo <= |q| <= hi
    are the magnitudes of the adjacent members of the *unbounded* format (restricted to
    multiples of 2^(n+1)), kept = lo in units of hi-lo, and (half, sticky) locate |q|
    relative to the midpoint.  For the real format lo = hi = |q|."""
    a = abs(q)
    if spec.kind == 'real':
        return a, a, 0, 0, False
    e = ilog2(a)
    k = spec.quantum_exp(e, n)
    N, exact = scaled_floor(a, k - 1)
    kept, half = N >> 1, N & 1
    unit = Fraction(2) ** k
    lo = kept * unit
    hi = lo + unit
    return lo, hi, kept, half, (not exact)


def choose(kept: int, half: int, sticky: bool, mode: str, s: bool) -> bool:
    """True = take the neighbour of larger magnitude.  Written from the mode names."""
    if half == 0 and not sticky:
        return False                      # representable
    if mode == 'RTZ':
        return False
    if mode == 'RAZ':
        return True
    if mode == 'RTP':
        return not s
    if mode == 'RTN':
        return s
    if mode in ('RNE', 'RNA'):
        if half == 0:
            return False                  # below the midpoint
        if sticky:
            return True                   # above the midpoint
        return True if mode == 'RNA' else (kept % 2 == 1)
    if mode == 'RTE':
        return kept % 2 == 1
    if mode == 'RTO':
        return kept % 2 == 0
    raise ValueError(mode)


def toward_infinity_on_overflow(mode: str, s: bool):
    """Does an overflow go to infinity (True), to the largest value (False), or is it
    left open by the documentation (None: RTE / RTO)?"""
    if mode in ('RNE', 'RNA', 'RAZ'):
        return True
    if mode == 'RTZ':
        return False
    if mode == 'RTP':
        return not s
    if mode == 'RTN':
        return s
    return None


def _zero(spec: Spec, s: bool) -> X:
    return X.zero(s and spec.has_negzero)


def _maxval(spec: Spec, s: bool) -> X:
    v = spec.maxneg if s else spec.maxpos
    if v == 0:
        return _zero(spec, s)
    return X.fin(v)


def _subst(sub, s: bool):
    """list of admissible values for a substituted special, or 'ERR'"""
    if sub == 'ERR':
        return 'ERR'
    return sub(s) if callable(sub) else list(sub)


def round_model(spec: Spec, x: X, mode: str, ovf: str, n: Optional[int] = None):
    """Returns a list of admissible outcomes (value | 'ERR', inexact | None, overflow | None)."""
    if x.isnan:
        if spec.has_nan:
            return [(X.nan(), None, None)]
        sub = _subst(spec.nan_sub, x.s)
        if sub == 'ERR':
            return [('ERR', None, None)]
        return [(v, None, None) for v in sub]
    if x.isinf:
        if spec.has_inf:
            return [(X.inf(x.s), None, None)]
        sub = _subst(spec.inf_sub, x.s)
        if sub == 'ERR':
            return [('ERR', None, None)]
        return [(v, None, None) for v in sub]
    if x.iszero:
        return [(_zero(spec, x.s), False, False)]

    q = x.q
    s = q < 0
    if spec.kind == 'real':
        return [(X.fin(q), False, False)]
    lo, hi, kept, half, sticky = neighbours(spec, q, n)
    up = choose(kept, half, sticky, mode, s)
    mag = hi if up else lo
    inexact = bool(half or sticky)
    r = -mag if s else mag

    over = False
    if spec.maxpos is not None and r > spec.maxpos:
        over = True
    if spec.maxneg is not None and r < spec.maxneg:
        over = True
    if not over:
        if r == 0:
            return [(_zero(spec, s), inexact, False)]
        return [(X.fin(r), inexact, False)]

    # the unbounded rounding left the range
    if ovf == 'ASSERT':
        return [('ERR', None, None)]
    if ovf == 'SATURATE':
        return [(_maxval(spec, s), True, True)]
    if ovf == 'WRAP':
        assert spec.kind == 'fixed'
        unit = Fraction(2) ** (spec.nmin + 1)
        lo_o = spec.maxneg / unit
        hi_o = spec.maxpos / unit
        assert lo_o.denominator == 1 and hi_o.denominator == 1
        o = r / unit
        assert o.denominator == 1
        total = int(hi_o) - int(lo_o) + 1
        w = (int(o) - int(lo_o)) % total + int(lo_o)
        v = w * unit
        return [((X.fin(v) if v != 0 else _zero(spec, False)), True, True)]
    assert ovf == 'OVERFLOW'
    outs = []
    to_inf = toward_infinity_on_overflow(mode, s)
    if to_inf in (True, None):
        if spec.has_inf:
            outs.append((X.inf(s), True, True))
        else:
            sub = _subst(spec.inf_sub, s)
            if sub == 'ERR':
                outs.append(('ERR', None, None))
            else:
                outs.extend((v, True, True) for v in sub)
    if to_inf in (False, None):
        outs.append((_maxval(spec, s), True, True))
    return outs


def is_member(spec: Spec, v: X) -> bool:
    """membership of an extended real in the format's value set."""
    if v.isnan:
        return spec.has_nan
    if v.isinf:
        return spec.has_inf
    if v.iszero:
        return spec.has_negzero or not v.s
    if spec.kind == 'real':
        return True
    q = v.q
    if spec.maxpos is not None and q > spec.maxpos:
        return False
    if spec.maxneg is not None and q < spec.maxneg:
        return False
    lo, hi, kept, half, sticky = neighbours(spec, q, None)
    return half == 0 and not sticky
