"""
Reference semantics of the C02 operations on extended reals, and `round_real`.  No import of fpy2.

`exact(op, xs, mode)` returns an `Exact`: the list of admissible *exact* results of the
operation on the operands' real values (an `X`, or an irrational `RealRef` from realref.py),
written out per operation from IEEE 754-2019 (§5.3.1 remainder / roundToIntegral, §5.4.1
arithmetic and fusedMultiplyAdd and squareRoot, §6.1 infinities, §6.2 NaNs, §6.3 sign bit,
§7.2 invalid, §7.3 divideByZero, §9.2.1 hypot / pown / rootn(x, 3)) and, for the operations
IEEE 754 does not have (fmod, fdim: C Annex F.10; mod: the docstring `x - floor(x/y)*y`),
from those texts with every point they leave unsettled kept open.

More than one alternative means the property statement leaves the choice open.
`invalid` / `divzero` are True / False where IEEE 754 defines the flag for that case,
None where it does not (then the flag is not compared).
"""

from __future__ import annotations

from fractions import Fraction
from typing import Optional

from .xreal import X
from . import rounding as R
from .realref import Sqrt, Cbrt, Hypot

UNARY = ('sqrt', 'cbrt', 'ceil', 'floor', 'trunc', 'roundint', 'nearbyint', 'neg', 'fabs')
BINARY = ('add', 'sub', 'mul', 'div', 'hypot', 'mod', 'fmod', 'remainder', 'copysign', 'fdim')
TERNARY = ('fma',)
POW = ('pow',)
ALL_OPS = BINARY + TERNARY + UNARY + POW

# operations IEEE 754 specifies (clause 5 or the recommended operations of clause 9): only for these are
# the invalid / divideByZero flags compared
IEEE_OPS = {'add', 'sub', 'mul', 'div', 'fma', 'sqrt', 'remainder', 'cbrt', 'hypot', 'pow',
            'ceil', 'floor', 'trunc', 'roundint', 'nearbyint', 'neg', 'fabs', 'copysign'}

# operations whose exact result on rationals may be irrational or needs an integer quotient: an engine may
# decline a non-dyadic rational operand for them (counted, not judged)
NOT_RATIONAL_CLOSED = {'sqrt', 'cbrt', 'hypot', 'mod', 'fmod', 'remainder', 'fdim'}


class Exact:
    __slots__ = ('alts', 'invalid', 'divzero', 'direct_n')

    def __init__(self, alts, invalid=False, divzero=False, direct_n=None):
        self.alts = alts if isinstance(alts, list) else [alts]
        self.invalid = invalid
        self.divzero = divzero
        # nearbyint: besides "exact integer, then rounded once", rounding the operand itself once at
        # position n (the docstring's reading) is admissible
        self.direct_n = direct_n

    def __repr__(self):
        return f'Exact({self.alts}, invalid={self.invalid}, divzero={self.divzero})'


NAN = X.nan()


def _cancel(mode: str):
    """IEEE 754 §6.3: an exact zero sum of opposite-signed operands is +0 in every rounding direction
    except roundTowardNegative (-0); the property statement leaves the latter open."""
    return [X.zero(False), X.zero(True)] if mode == 'RTN' else [X.zero(False)]


def _add(x: X, y: X, mode: str) -> Exact:
    if x.isnan or y.isnan:
        return Exact(NAN)
    if x.isinf or y.isinf:
        if x.isinf and y.isinf and x.s != y.s:
            return Exact(NAN, invalid=True)
        return Exact(X.inf(x.s if x.isinf else y.s))
    r = x.q + y.q
    if r != 0:
        return Exact(X.fin(r))
    if x.iszero and y.iszero and x.s == y.s:
        return Exact(X.zero(x.s))
    return Exact(_cancel(mode))


def _mul(x: X, y: X) -> Exact:
    if x.isnan or y.isnan:
        return Exact(NAN)
    s = x.s != y.s
    if x.isinf or y.isinf:
        if x.iszero or y.iszero:
            return Exact(NAN, invalid=True)
        return Exact(X.inf(s))
    return Exact(X('fin', s, x.q * y.q))


def _div(x: X, y: X) -> Exact:
    if x.isnan or y.isnan:
        return Exact(NAN)
    s = x.s != y.s
    if x.isinf:
        if y.isinf:
            return Exact(NAN, invalid=True)
        return Exact(X.inf(s))
    if y.isinf:
        return Exact(X.zero(s))
    if y.iszero:
        if x.iszero:
            return Exact(NAN, invalid=True)
        return Exact(X.inf(s), divzero=True)
    return Exact(X('fin', s, x.q / y.q))


def _fma(x: X, y: X, z: X, mode: str) -> Exact:
    if (x.isinf and y.iszero) or (x.iszero and y.isinf):
        # invalid unless c is a quiet NaN, where raising it is implementation-defined (§7.2 c)
        return Exact(NAN, invalid=None if (z.isnan or x.isnan or y.isnan) else True)
    if x.isnan or y.isnan or z.isnan:
        return Exact(NAN)
    p = _mul(x, y).alts[0]
    return _add(p, z, mode)


def _sqrt(x: X) -> Exact:
    if x.isnan:
        return Exact(NAN)
    if x.iszero:
        return Exact(x)                       # sqrt(-0) = -0
    if x.s:
        return Exact(NAN, invalid=True)
    if x.isinf:
        return Exact(x)
    r = Sqrt(x.q)
    q = r.rational()
    return Exact(X.fin(q) if q is not None else r)


def _cbrt(x: X) -> Exact:
    if x.isnan or x.isinf or x.iszero:
        return Exact(x)                       # rootn(+-0, 3) = +-0, rootn(+-inf, 3) = +-inf
    r = Cbrt(x.q)
    q = r.rational()
    return Exact(X.fin(q) if q is not None else r)


def _hypot(x: X, y: X) -> Exact:
    if x.isinf or y.isinf:
        if x.isnan or y.isnan:
            # §9.2.1: hypot(+-inf, qNaN) is +inf; the property statement also says "NaN propagates"
            return Exact([X.inf(False), NAN])
        return Exact(X.inf(False))
    if x.isnan or y.isnan:
        return Exact(NAN)
    if x.iszero and y.iszero:
        return Exact(X.zero(False))
    r = Hypot(x.q, y.q)
    q = r.rational()
    return Exact(X.fin(q) if q is not None else r)


def _floor(q: Fraction) -> int:
    return q.numerator // q.denominator


def _trunc(q: Fraction) -> int:
    return -_floor(-q) if q < 0 else _floor(q)


def _nearest_even(q: Fraction) -> int:
    f = _floor(q)
    d = q - f
    if d < Fraction(1, 2):
        return f
    if d > Fraction(1, 2):
        return f + 1
    return f if f % 2 == 0 else f + 1


def _nearest_away(q: Fraction) -> int:
    f = _floor(abs(q) + Fraction(1, 2))
    return -f if q < 0 else f


def _rem_common(x: X, y: X, flagged: bool):
    """shared special cases of the three remainders; returns an Exact or None (both finite, y != 0, x != 0)"""
    if x.isnan or y.isnan:
        return Exact(NAN)
    if x.isinf or y.iszero:
        return Exact(NAN, invalid=True if flagged else None)
    return None


def _fmod(x: X, y: X) -> Exact:
    """C fmod: x - trunc(x/y) * y, result has the sign of x (F.10.7.1)"""
    e = _rem_common(x, y, False)
    if e is not None:
        return e
    if y.isinf or x.iszero:
        return Exact(x, invalid=None, divzero=None)
    r = x.q - _trunc(x.q / y.q) * y.q
    return Exact(X('fin', x.s, r), invalid=None, divzero=None)


def _remainder(x: X, y: X) -> Exact:
    """IEEE 754 §5.3.1: x - y*n, n the integer nearest x/y, ties to even; a zero result has the sign of x"""
    e = _rem_common(x, y, True)
    if e is not None:
        return e
    if y.isinf or x.iszero:
        return Exact(x)
    r = x.q - _nearest_even(x.q / y.q) * y.q
    return Exact(X('fin', x.s, r))


def _mod(x: X, y: X) -> Exact:
    """docstring: x % y = x - floor(x / y) * y (Python's operator).  Neither IEEE 754 nor the docstring fixes
    the sign of a zero result or the value for an infinite divisor of the opposite sign: both readings
    (Python's: sign of y / y itself; C fmod's: sign of x / x itself) are admissible."""
    e = _rem_common(x, y, False)
    if e is not None:
        return e
    if y.isinf:
        if x.iszero:
            return Exact([X.zero(False), X.zero(True)], None, None)
        if x.s == y.s:
            return Exact(x, None, None)
        return Exact([y, x], None, None)
    if x.iszero:
        return Exact([X.zero(False), X.zero(True)], None, None)
    r = x.q - _floor(x.q / y.q) * y.q
    if r == 0:
        return Exact([X.zero(False), X.zero(True)], None, None)
    return Exact(X.fin(r), None, None)


def _pow(x: X, n: int) -> Exact:
    """IEEE 754 §9.2.1 pown"""
    if n == 0:
        # pown(x, 0) is 1 for any x, even a quiet NaN; "NaN propagates" is the other reading
        return Exact([X.fin(1), NAN] if x.isnan else X.fin(1))
    if x.isnan:
        return Exact(NAN)
    s = x.s and (n % 2 == 1)
    if x.isinf:
        return Exact(X.inf(s) if n > 0 else X.zero(s))
    if x.iszero:
        if n > 0:
            return Exact(X.zero(s))
        return Exact(X.inf(s), divzero=True)
    return Exact(X('fin', s, x.q ** n))


def _rint(x: X, how) -> Exact:
    """roundToIntegral*: specials and zeros unchanged; a zero result has the sign of the operand"""
    if not x.isfin or x.iszero:
        return Exact(x)
    return Exact(X('fin', x.s, Fraction(how(x.q))))


def _mode_int(q: Fraction, mode: str) -> int:
    """round a rational to an integer under a named rounding mode (quantum 1)"""
    spec = R.Spec('fixed', nmin=-1)
    lo, hi, kept, half, sticky = R.neighbours(spec, q, None)
    up = R.choose(kept, half, sticky, mode, q < 0)
    mag = hi if up else lo
    return int(-mag if q < 0 else mag)


def _copysign(x: X, y: X) -> Exact:
    if x.isnan:
        return Exact(NAN)
    if y.isnan:
        # the sign bit of a NaN is not part of the value the operand denotes
        return Exact([x.abs(), x.abs().neg()])
    a = x.abs()
    return Exact(a.neg() if y.s else a)


def _fdim(x: X, y: X) -> Exact:
    """C fdim (F.10.9.1): x - y if x > y, +0 if x <= y, NaN if either is NaN"""
    if x.isnan or y.isnan:
        return Exact(NAN, None, None)
    c = x.cmp(y)
    if c is not None and c > 0:
        e = _add(x, y.neg(), 'RNE')
        return Exact(e.alts, None, None)
    return Exact(X.zero(False), None, None)


def exact(op: str, xs, mode: str) -> Exact:
    if op == 'add':
        return _add(xs[0], xs[1], mode)
    if op == 'sub':
        return _add(xs[0], xs[1].neg(), mode)
    if op == 'mul':
        return _mul(*xs)
    if op == 'div':
        return _div(*xs)
    if op == 'fma':
        return _fma(xs[0], xs[1], xs[2], mode)
    if op == 'sqrt':
        return _sqrt(xs[0])
    if op == 'cbrt':
        return _cbrt(xs[0])
    if op == 'hypot':
        return _hypot(*xs)
    if op == 'mod':
        return _mod(*xs)
    if op == 'fmod':
        return _fmod(*xs)
    if op == 'remainder':
        return _remainder(*xs)
    if op == 'pow':
        n = xs[1]
        assert n.isfin and n.q.denominator == 1
        return _pow(xs[0], int(n.q))
    if op == 'ceil':
        return _rint(xs[0], lambda q: -_floor(-q))
    if op == 'floor':
        return _rint(xs[0], _floor)
    if op == 'trunc':
        return _rint(xs[0], _trunc)
    if op == 'roundint':
        return _rint(xs[0], _nearest_away)
    if op == 'nearbyint':
        e = _rint(xs[0], lambda q: _mode_int(q, mode))
        e.direct_n = -1
        return e
    if op == 'neg':
        return Exact(xs[0].neg())
    if op == 'fabs':
        return Exact(xs[0].abs())
    if op == 'copysign':
        return _copysign(*xs)
    if op == 'fdim':
        return _fdim(*xs)
    raise ValueError(op)


# ---------------------------------------------------------------------------
# rounding a RealRef once

def round_real(spec: R.Spec, ref, mode: str, ovf: str, n: Optional[int] = None):
    """Admissible outcomes of rounding the non-zero real `ref` once under `spec`; mirrors
    `rounding.round_model` using only `ref.sign()`, `ref.ilog2()` and `ref.scaled_floor(k)`.

    The position of |ref| relative to the format is (kept digits, half bit, sticky) read at the local
    quantum 2^k.  Every real with the same three values in the same binade rounds identically under
    every mode and every overflow rule, so the outcome is that of a rational *in the same rounding
    cell*: the value itself when it sits on the half-quantum grid, else the centre of its open cell."""
    s = ref.sign() < 0
    assert ref.sign() != 0
    q = ref.rational()
    if q is not None:
        return R.round_model(spec, X.fin(q), mode, ovf, n)
    if spec.kind == 'real':
        return [('ERR', None, None)]          # an irrational number is not a value of the real format
    e = ref.ilog2()
    k = spec.quantum_exp(e, n)
    N, ex = ref.scaled_floor(k - 1)
    assert not ex                              # irrational: never on the grid
    half_unit = Fraction(2) ** (k - 1)
    rep = (N + Fraction(1, 2)) * half_unit     # centre of the open cell (N, N+1) * 2^(k-1)
    # the representative must be read at the same quantum and give the same (kept, half, sticky)
    lo, hi, kept, half, sticky = R.neighbours(spec, rep, n)
    assert hi - lo == Fraction(2) ** k and kept == N >> 1 and half == N & 1 and sticky, (ref, spec, n)
    if s:
        assert ref.cmp(-lo) < 0 and ref.cmp(-hi) > 0
    else:
        assert ref.cmp(lo) > 0 and ref.cmp(hi) < 0
    return R.round_model(spec, X.fin(-rep if s else rep), mode, ovf, n)
