"""
Real numbers known only through exact comparisons (DESIGN §3.1 "RealRef").  No import of fpy2.

A RealRef is a real number x (possibly irrational) exposing exactly what rounding needs:

    sign()            -> -1 | 0 | +1
    ilog2()           -> floor(log2 |x|)                       (x != 0)
    scaled_floor(k)   -> (floor(|x| / 2^k), exact?)            exact? <=> |x| / 2^k is that integer
    cmp(q)            -> -1 | 0 | +1   sign of x - q for a rational q
    rational()        -> Fraction when x is rational, else None

`Sqrt(q)`, `Cbrt(q)` and `Hypot(a, b)` are decided by exact integer comparison of powers:
every answer m is justified by m^r <= t < (m+1)^r on integers / rationals (asserted), never by
floating point.  `Rat(q)` wraps a rational so that callers can treat all results uniformly.
"""

from __future__ import annotations

from fractions import Fraction
from math import isqrt


def _ilog2(q: Fraction) -> int:
    """floor(log2 q) for q > 0, exactly."""
    n, d = q.numerator, q.denominator
    e = n.bit_length() - d.bit_length()
    if Fraction(2) ** e > q:
        e -= 1
    elif Fraction(2) ** (e + 1) <= q:
        e += 1
    assert Fraction(2) ** e <= q < Fraction(2) ** (e + 1)
    return e


def _iroot(t: int, r: int) -> int:
    """floor(t ** (1/r)) for an integer t >= 0 and r in {2, 3}, by integer bisection."""
    assert t >= 0
    if r == 2:
        m = isqrt(t)
    else:
        lo, hi = 0, 1
        while hi ** r <= t:
            hi <<= 1
        # lo^r <= t < hi^r
        while hi - lo > 1:
            mid = (lo + hi) >> 1
            if mid ** r <= t:
                lo = mid
            else:
                hi = mid
        m = lo
    assert m ** r <= t < (m + 1) ** r
    return m


class Rat:
    """a rational number as a RealRef"""

    def __init__(self, q):
        self.q = Fraction(q)

    def sign(self):
        return (self.q > 0) - (self.q < 0)

    def ilog2(self):
        return _ilog2(abs(self.q))

    def scaled_floor(self, k: int):
        t = abs(self.q) / (Fraction(2) ** k)
        return t.numerator // t.denominator, t.denominator == 1

    def cmp(self, q):
        q = Fraction(q)
        return (self.q > q) - (self.q < q)

    def rational(self):
        return self.q

    def __repr__(self):
        return str(self.q)


class Root:
    """sign * |q| ** (1/r) for a non-zero rational q; r = 2 requires q > 0."""

    r = 2
    name = 'root'

    def __init__(self, q):
        q = Fraction(q)
        assert q != 0
        if self.r % 2 == 0:
            assert q > 0
        self.q = q
        self.a = abs(q)

    def sign(self):
        return 1 if self.q > 0 else -1

    def ilog2(self):
        # floor(log2(a) / r) = floor(floor(log2 a) / r)
        e = _ilog2(self.a) // self.r
        assert Fraction(2) ** (self.r * e) <= self.a < Fraction(2) ** (self.r * (e + 1))
        return e

    def scaled_floor(self, k: int):
        # floor(a^(1/r) / 2^k) = floor((a / 2^(r k))^(1/r)) = iroot(floor(a / 2^(r k)))
        t = self.a / (Fraction(2) ** (self.r * k))
        f = t.numerator // t.denominator
        m = _iroot(f, self.r)
        # justification on the rational itself
        assert Fraction(m) ** self.r <= t < Fraction(m + 1) ** self.r
        return m, (t.denominator == 1 and m ** self.r == f)

    def cmp(self, q):
        """sign of x - q"""
        q = Fraction(q)
        s = self.sign()
        sq = (q > 0) - (q < 0)
        if sq != s:
            return 1 if s > sq else -1
        # same non-zero sign: compare |x|^r = a with |q|^r
        c = (self.a > abs(q) ** self.r) - (self.a < abs(q) ** self.r)
        return c * s

    def rational(self):
        n = _iroot(self.a.numerator, self.r)
        d = _iroot(self.a.denominator, self.r)
        if n ** self.r == self.a.numerator and d ** self.r == self.a.denominator:
            return Fraction(n, d) * self.sign()
        return None

    def __repr__(self):
        return f'{self.name}({self.q})'


class Sqrt(Root):
    r = 2
    name = 'sqrt'


class Cbrt(Root):
    r = 3
    name = 'cbrt'


class Hypot(Sqrt):
    """sqrt(a^2 + b^2), not both zero"""
    name = 'hypot'

    def __init__(self, a, b):
        a, b = Fraction(a), Fraction(b)
        super().__init__(a * a + b * b)
        self.args = (a, b)

    def __repr__(self):
        return f'hypot({self.args[0]}, {self.args[1]})'
