"""
Membership models for property C14 (no import of fpy2).

Two notions, both written from the documentation of the classes they model:

* `member(params, x)` -- is the extended real `x` (mc.model.xreal.X) a member of
  the number format described by the plain dictionary `params`?  The dictionary
  holds nothing but the format's PUBLIC constructor parameters (the caller reads
  them off the `Format` object; see mc.checks.c14.params_of):

      {'cls': 'real'}
      {'cls': 'mpfloat',  'pmax', 'nan', 'inf'}
      {'cls': 'mpsfloat', 'pmax', 'emin', 'nan', 'inf'}
      {'cls': 'mpbfloat', 'pmax', 'emin', 'pos', 'neg', 'nan', 'inf'}
      {'cls': 'mpfixed',  'nmin', 'nan', 'inf', 'negzero'}
      {'cls': 'mpbfixed', 'nmin', 'pos', 'neg', 'nan', 'inf', 'negzero'}
      {'cls': 'fixed',    'signed', 'scale', 'nbits'}
      {'cls': 'smfixed',  'scale', 'nbits'}
      {'cls': 'efloat',   'es', 'nbits', 'inf', 'kind', 'eoffset'}      (IEEE: kind IEEE_754, eoffset 0, inf True)
      {'cls': 'exp',      'nbits', 'eoffset'}

  Floating-point families ("maximum precision pmax", "minimum normalized
  exponent emin", "positive/negative maximum value"): a finite non-zero x is a
  member iff it can be written c * 2^e with c < 2^pmax and e >= emin - pmax + 1
  and neg <= x <= pos; both zeros are members (the classes answer `True` for
  every zero).  Fixed-point families ("nmin: the first unrepresentable digit"):
  x is a member iff it is a multiple of 2^(nmin+1) within the bounds; -0 only
  with `negzero`.  Encodable families are decided by decoding every bit pattern
  with the independent layouts of mc.model.encoding (small words) or, for IEEE
  words too wide to enumerate, by the IEEE 754 parameters (p = nbits - es,
  emax = 2^(es-1) - 1, emin = 1 - emax).

* `abs_member(a, x)` -- membership in an *abstract* number system
  `A(prec, exp, pos_bound, neg_bound, +inf?, -inf?, nan?, -0?)` as its class
  docstring defines the fields: `prec` maximum precision, `exp` minimum
  unnormalized exponent, the bounds the largest positive / negative finite
  values, four independent special-value flags; +0 is always a member
  ("every format represents a +0.0").  `a` is a tuple
  (prec, exp, pos, neg, pinf, ninf, nan, negzero) with None for "unbounded".
"""

from __future__ import annotations

from fractions import Fraction

from .xreal import X
from .rounding import Spec, is_member
from . import encoding as E

ENUM_BITS = 12          # encodable words up to this width are decided by decoding every pattern

_SETS: dict = {}


def _bits_needed(q: Fraction):
    """(p, t): |q| = m * 2^t with m odd; p = bit length of m.  q != 0, dyadic."""
    q = abs(q)
    n, d = q.numerator, q.denominator
    if d & (d - 1):
        return None
    t = -(d.bit_length() - 1)
    while n % 2 == 0:
        n //= 2
        t += 1
    return n.bit_length(), t


def _value_set(key, layout):
    vs = _SETS.get(key)
    if vs is None:
        vs = E.ValueSet(layout)
        _SETS[key] = vs
    return vs


def spec_of(p: dict):
    """-> ('spec', Spec) | ('set', ValueSet) | ('real', None)"""
    c = p['cls']
    if c == 'real':
        return 'real', None
    if c == 'mpfloat':
        return 'spec', Spec('float', p=p['pmax'], emin=None, has_nan=p['nan'], has_inf=p['inf'], has_negzero=True)
    if c == 'mpsfloat':
        return 'spec', Spec('float', p=p['pmax'], emin=p['emin'], has_nan=p['nan'], has_inf=p['inf'], has_negzero=True)
    if c == 'mpbfloat':
        return 'spec', Spec('float', p=p['pmax'], emin=p['emin'], maxpos=Fraction(p['pos']), maxneg=Fraction(p['neg']),
                            has_nan=p['nan'], has_inf=p['inf'], has_negzero=True)
    if c == 'mpfixed':
        return 'spec', Spec('fixed', nmin=p['nmin'], has_nan=p['nan'], has_inf=p['inf'], has_negzero=p['negzero'])
    if c == 'mpbfixed':
        return 'spec', Spec('fixed', nmin=p['nmin'], maxpos=Fraction(p['pos']), maxneg=Fraction(p['neg']),
                            has_nan=p['nan'], has_inf=p['inf'], has_negzero=p['negzero'])
    if c == 'fixed':
        if p['nbits'] <= ENUM_BITS:
            return 'set', _value_set(('fixed', p['signed'], p['scale'], p['nbits']),
                                     E.FixedLayout(p['signed'], p['scale'], p['nbits']))
        u = E.pow2(p['scale'])
        n = p['nbits']
        if p['signed']:
            lo, hi = -(1 << (n - 1)) * u, ((1 << (n - 1)) - 1) * u
        else:
            lo, hi = Fraction(0), ((1 << n) - 1) * u
        return 'spec', Spec('fixed', nmin=p['scale'] - 1, maxpos=hi, maxneg=lo, has_nan=False, has_inf=False,
                            has_negzero=False)
    if c == 'smfixed':
        if p['nbits'] <= ENUM_BITS:
            return 'set', _value_set(('smfixed', p['scale'], p['nbits']), E.SMFixedLayout(p['scale'], p['nbits']))
        hi = ((1 << (p['nbits'] - 1)) - 1) * E.pow2(p['scale'])
        return 'spec', Spec('fixed', nmin=p['scale'] - 1, maxpos=hi, maxneg=-hi, has_nan=False, has_inf=False,
                            has_negzero=True)
    if c == 'efloat':
        if p['nbits'] <= ENUM_BITS:
            return 'set', _value_set(('efloat', p['es'], p['nbits'], p['inf'], p['kind'], p['eoffset']),
                                     E.EFloatLayout(p['es'], p['nbits'], p['inf'], p['kind'], p['eoffset']))
        if p['kind'] == 'IEEE_754' and p['inf'] and p['eoffset'] == 0 and p['es'] >= 2:
            prec = p['nbits'] - p['es']
            emax = (1 << (p['es'] - 1)) - 1
            top = (Fraction(2) - E.pow2(1 - prec)) * E.pow2(emax)
            return 'spec', Spec('float', p=prec, emin=1 - emax, maxpos=top, maxneg=-top, has_nan=True, has_inf=True,
                                has_negzero=True)
        return 'unknown', None
    if c == 'exp':
        if p['nbits'] <= ENUM_BITS:
            return 'set', _value_set(('exp', p['nbits'], p['eoffset']), E.ExpLayout(p['nbits'], p['eoffset']))
        return 'unknown', None
    return 'unknown', None


def member(p: dict, x: X):
    """True / False, or None when this model cannot decide (a format family or
    width it does not describe): the caller counts that as inconclusive."""
    how, m = spec_of(p)
    if how == 'real':
        return True
    if how == 'unknown':
        return None
    if how == 'set':
        return m.contains(x)
    if x.isfin and not x.iszero and _bits_needed(x.q) is None:
        return False            # not a dyadic rational: no binary format holds it
    return is_member(m, x)


# ----------------------------------------------------------------------
# abstract number systems

def abs_member(a: tuple, x: X) -> bool:
    prec, exp, pos, neg, pinf, ninf, nan, negzero = a
    if x.isnan:
        return bool(nan)
    if x.isinf:
        return bool(ninf if x.s else pinf)
    if x.iszero:
        return (not x.s) or bool(negzero)
    q = x.q
    if pos is not None and q > pos:
        return False
    if neg is not None and q < neg:
        return False
    bt = _bits_needed(q)
    if bt is None:
        return False
    p, t = bt
    if prec is not None and p > prec:
        return False
    if exp is not None and t < exp:
        return False
    return True


def abs_window_members(a: tuple, bound: int = 8, grid: int = 4) -> list[X]:
    """all members of `a` with |x| <= bound on the 2^-grid grid, plus the flagged
    specials.  Complete for systems with exp >= -grid and bounds within the window."""
    out = []
    den = 1 << grid
    for k in range(-bound * den, bound * den + 1):
        if k == 0:
            continue
        x = X.fin(Fraction(k, den))
        if abs_member(a, x):
            out.append(x)
    out.append(X.zero(False))
    if a[7]:
        out.append(X.zero(True))
    if a[4]:
        out.append(X.inf(False))
    if a[5]:
        out.append(X.inf(True))
    if a[6]:
        out.append(X.nan())
    return out
