"""
"Prove the model" step (DESIGN §3.1), run by the setup command: the rounding oracle is
compared with the platform's own IEEE 754 conversions, which share no code with fpy2 or
with the oracle:

* binary16: for EVERY pair of adjacent finite half-precision values (both signs) the
  midpoint and the two quarter points, rounded to nearest-even, against numpy.float16;
* binary32: the same around a structured set of values (every exponent x a few
  mantissas), against struct.pack('f');
* directed modes and ties-away on binary16, against an independent integer formulation
  (floor/ceil of the scaled value), over the same operands.
"""

from __future__ import annotations

import math
import struct
from fractions import Fraction

from . import rounding as R
from .xreal import X

Q = Fraction


def _spec(p, emin, emax):
    maxv = (Q(2) - Q(2) ** (1 - p)) * Q(2) ** emax
    return R.Spec('float', p=p, emin=emin, maxpos=maxv, maxneg=-maxv)


def _oracle(spec, q, mode='RNE'):
    outs = R.round_model(spec, X.fin(q) if q != 0 else X.zero(False), mode, 'OVERFLOW')
    assert len(outs) == 1, outs
    return outs[0][0]


def _as_float(x: X) -> float:
    if x.isinf:
        return -math.inf if x.s else math.inf
    if x.iszero:
        return -0.0 if x.s else 0.0
    return float(x.q)


def check_binary16():
    import numpy as np
    spec = _spec(11, -14, 15)
    halves = sorted({float(np.uint16(b).view(np.float16)) for b in range(0x7c00)})   # non-negative finite
    n = 0
    for lo, hi in zip(halves, halves[1:] + [65536.0]):
        lo_q, hi_q = Q(lo), Q(hi)
        for num in (1, 2, 3):
            q = lo_q + (hi_q - lo_q) * num / 4
            for sgn in (1, -1):
                want = float(np.float16(float(sgn * q)))
                got = _as_float(_oracle(spec, sgn * q))
                assert got == want and math.copysign(1, got) == math.copysign(1, want), (sgn * q, got, want)
                n += 1
                # directed modes / ties away by integer arithmetic on the scaled value
                e = max(R.ilog2(q), -14) - 10
                t = q / Q(2) ** e
                fl, ce = t.numerator // t.denominator, -((-t.numerator) // t.denominator)
                for mode, pick in (('RTZ', fl), ('RAZ', ce), ('RTP', ce if sgn > 0 else fl),
                                   ('RTN', fl if sgn > 0 else ce)):
                    w = sgn * pick * Q(2) ** e
                    r = _oracle(spec, sgn * q, mode)
                    if abs(w) > spec.maxpos:
                        # overflow arm: infinity iff the mode rounds away for that sign
                        assert r.isinf == (pick == ce) or (not r.isinf and abs(r.q) == spec.maxpos), (q, mode, r)
                    else:
                        assert (r.isfin and r.q == w), (sgn * q, mode, r, w)
                    n += 1
    return n


def check_binary32():
    spec = _spec(24, -126, 127)
    n = 0
    for e in range(-149, 128):
        for m in (0, 1, 2 ** 22, 2 ** 23 - 2, 2 ** 23 - 1):
            if e < -126:
                lo = Q(2) ** e * (m % 7 + 1)
                if lo >= Q(2) ** -126:
                    continue
                hi = lo + Q(2) ** -149
            else:
                lo = (Q(2 ** 23 + m)) * Q(2) ** (e - 23)
                hi = lo + Q(2) ** (e - 23)
            for num in (1, 2, 3):
                q = lo + (hi - lo) * num / 4
                for sgn in (1, -1):
                    f = float(sgn * q)
                    assert Q(f) == sgn * q
                    try:
                        want = struct.unpack('f', struct.pack('f', f))[0]
                    except OverflowError:
                        want = math.copysign(math.inf, f)
                    got = _as_float(_oracle(spec, sgn * q))
                    assert got == want, (sgn * q, got, want)
                    n += 1
    return n


def main():
    a = check_binary16()
    b = check_binary32()
    print(f'rounding oracle agrees with the platform: {a} binary16 cases, {b} binary32 cases')


if __name__ == '__main__':
    main()
