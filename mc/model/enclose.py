"""
Real numbers decided by MPFR enclosures (DESIGN §3.4).  No import of fpy2.

`Enclosed(fname, args)` denotes the real number f(args) for an elementary / special
function (or named constant) f and exact rational operands.  It is known only through

  * `classify()`  -- decided from MATHEMATICS before any evaluation: outside the domain,
    a pole, an exactly known rational value, proved irrational, or "unknown" (no theorem
    says the value is irrational: erf, erfc, Gamma, lgamma at generic points);
  * `enclosure(P)` -- [lo, hi] containing the value, from evaluating f with MPFR (gmpy2)
    at precision P with rounding DOWN and UP (dyadic endpoints (m, e) = m * 2^e);
  * comparisons with rationals / floor(log2) / floor(|x| / 2^k), each decided as soon as
    the rational lies outside an enclosure; otherwise P doubles (Ziv), capped at
    MAX_PREC bits, after which the answer is None ("inconclusive").

Trusted base: MPFR's directed rounding (RNDD / RNDU) of a single function at the oracle
precision, gmpy2's exact integer roots, Python integers / Fractions.

Table of the cases in which an elementary function of a rational is rational
(everything else in the domain is irrational, by the theorem quoted):

  exp x, expm1 x, sinh, cosh, tanh x      rational only at x = 0        (Lindemann-Weierstrass)
  log x, log1p x                          rational only at x = 1 / 0    (Lindemann-Weierstrass)
  sin, cos, tan x                         rational only at x = 0        (Lindemann-Weierstrass)
  asin, atan, asinh, atanh x              rational only at x = 0        (inverse of the above)
  acos x, acosh x                         rational only at x = 1        (idem)
  atan2(y, x)                             rational only for y = 0 < x   (value 0; else an angle
                                          with rational tangent, or +-pi/2, pi: transcendental)
  exp2 x                                  rational iff x is an integer  (2 is not a perfect power)
  exp10 x                                 rational iff x is an integer  (10 is not a perfect power)
  log2 x                                  rational iff x = 2^k, k in Z
  log10 x                                 rational iff x = 10^k, k in Z
  pow(x, a/b), x > 0, gcd(a,b)=1          rational iff a = 0 or x is the b-th power of a rational
                                          (unique factorisation; decided by integer roots)
  pow(x, n), x < 0, n integer             rational (x^n);  pow(0, y>0) = 0
  tgamma n, n positive integer            (n-1)!;  tgamma(k + 1/2) = rational * sqrt(pi): irrational
  lgamma 1 = lgamma 2 = 0;  lgamma n = log((n-1)!) irrational for n >= 3
  erf 0 = 0, erfc 0 = 1
  constants pi, e, ln 2, 1/ln 2, 1/ln 10, pi/2, pi/4, 1/pi, 2/pi, 2/sqrt(pi): transcendental;
  sqrt 2, sqrt(1/2): irrational algebraic.
"""

from __future__ import annotations

from fractions import Fraction
from typing import Optional

import gmpy2 as g

START_PREC = 64
MAX_PREC = 8192
_BIG = 4_000_000          # bits: exact rational results larger than this are not materialised

UNARY = ('exp', 'exp2', 'exp10', 'expm1', 'log', 'log2', 'log10', 'log1p', 'sin', 'cos', 'tan', 'asin', 'acos',
         'atan', 'sinh', 'cosh', 'tanh', 'asinh', 'acosh', 'atanh', 'erf', 'erfc', 'tgamma', 'lgamma')
BINARY = ('atan2', 'pow')
CONSTANTS = ('const_pi', 'const_e', 'const_log2e', 'const_log10e', 'const_ln2', 'const_pi_2', 'const_pi_4',
             'const_1_pi', 'const_2_pi', 'const_2_sqrt_pi', 'const_sqrt2', 'const_sqrt1_2')


def _lgamma(x):
    return g.lgamma(x)[0]


def _pow(x, y):
    return x ** y


_MPFR = {
    'exp': g.exp, 'exp2': g.exp2, 'exp10': g.exp10, 'expm1': g.expm1, 'log': g.log, 'log2': g.log2,
    'log10': g.log10, 'log1p': g.log1p, 'sin': g.sin, 'cos': g.cos, 'tan': g.tan, 'asin': g.asin, 'acos': g.acos,
    'atan': g.atan, 'sinh': g.sinh, 'cosh': g.cosh, 'tanh': g.tanh, 'asinh': g.asinh, 'acosh': g.acosh,
    'atanh': g.atanh, 'erf': g.erf, 'erfc': g.erfc, 'tgamma': g.gamma, 'lgamma': _lgamma, 'atan2': g.atan2,
    'pow': _pow,
}


# ---------------------------------------------------------------------------
# exact integer helpers

def _is_pow2(n: int) -> bool:
    return n > 0 and n & (n - 1) == 0


def _exact_log(n: int, base: int) -> Optional[int]:
    """k >= 0 with base**k == n, or None"""
    if n < 1:
        return None
    k = 0
    while n % base == 0:
        n //= base
        k += 1
    return k if n == 1 else None


def _iroot(n: int, b: int) -> Optional[int]:
    """the exact b-th root of the non-negative integer n, or None"""
    assert n >= 0 and b >= 1
    if n in (0, 1) or b == 1:
        return n
    if b >= n.bit_length():
        return None                       # 1 < n < 2^b: the root lies strictly between 1 and 2
    r, exact = g.iroot(g.mpz(n), b)
    r = int(r)
    assert r ** b <= n < (r + 1) ** b
    assert bool(exact) == (r ** b == n)
    return r if r ** b == n else None


def _is_int(q: Fraction) -> bool:
    return q.denominator == 1


# ---------------------------------------------------------------------------
# classification from mathematics

UNDEFINED, POLE, RATIONAL, IRRATIONAL, UNKNOWN = 'undefined', 'pole', 'rational', 'irrational', 'unknown'


def classify(fname: str, args: tuple) -> tuple:
    """-> (kind, value): value is a Fraction for RATIONAL, else None."""
    Q = Fraction
    if fname in CONSTANTS:
        assert not args
        return IRRATIONAL, None
    if fname in BINARY:
        a, b = (Q(t) for t in args)
        if fname == 'atan2':
            y, x = a, b
            if y == 0 and x == 0:
                return UNDEFINED, None
            if y == 0 and x > 0:
                return RATIONAL, Q(0)
            return IRRATIONAL, None
        x, y = a, b
        if x == 0:
            if y > 0:
                return RATIONAL, Q(0)
            return (UNDEFINED if y == 0 else POLE), None
        if y == 0 or x == 1:
            return RATIONAL, Q(1)
        num, den = y.numerator, y.denominator
        if x < 0:
            if den != 1:
                return UNDEFINED, None
            if abs(num) * (x.numerator.bit_length() + x.denominator.bit_length()) > _BIG:
                return UNKNOWN, None
            return RATIONAL, x ** num
        rn, rd = _iroot(x.numerator, den), _iroot(x.denominator, den)
        if rn is None or rd is None:
            return IRRATIONAL, None
        if abs(num) * (rn.bit_length() + rd.bit_length()) > _BIG:
            return UNKNOWN, None
        return RATIONAL, Q(rn, rd) ** num
    (x,) = (Q(t) for t in args)
    if fname in ('exp', 'cos', 'cosh'):
        return (RATIONAL, Q(1)) if x == 0 else (IRRATIONAL, None)
    if fname in ('expm1', 'sin', 'tan', 'atan', 'sinh', 'tanh', 'asinh'):
        return (RATIONAL, Q(0)) if x == 0 else (IRRATIONAL, None)
    if fname in ('exp2', 'exp10'):
        if not _is_int(x):
            return IRRATIONAL, None
        n = int(x)
        if abs(n) * 4 > _BIG:
            return UNKNOWN, None
        return RATIONAL, Q(2 if fname == 'exp2' else 10) ** n
    if fname == 'log':
        if x <= 0:
            return (POLE if x == 0 else UNDEFINED), None
        return (RATIONAL, Q(0)) if x == 1 else (IRRATIONAL, None)
    if fname == 'log1p':
        if x <= -1:
            return (POLE if x == -1 else UNDEFINED), None
        return (RATIONAL, Q(0)) if x == 0 else (IRRATIONAL, None)
    if fname in ('log2', 'log10'):
        if x <= 0:
            return (POLE if x == 0 else UNDEFINED), None
        base = 2 if fname == 'log2' else 10
        if x.denominator == 1:
            k = _exact_log(x.numerator, base)
            return (RATIONAL, Q(k)) if k is not None else (IRRATIONAL, None)
        if x.numerator == 1:
            k = _exact_log(x.denominator, base)
            return (RATIONAL, Q(-k)) if k is not None else (IRRATIONAL, None)
        return IRRATIONAL, None
    if fname == 'asin':
        if abs(x) > 1:
            return UNDEFINED, None
        return (RATIONAL, Q(0)) if x == 0 else (IRRATIONAL, None)
    if fname == 'acos':
        if abs(x) > 1:
            return UNDEFINED, None
        return (RATIONAL, Q(0)) if x == 1 else (IRRATIONAL, None)
    if fname == 'acosh':
        if x < 1:
            return UNDEFINED, None
        return (RATIONAL, Q(0)) if x == 1 else (IRRATIONAL, None)
    if fname == 'atanh':
        if abs(x) > 1:
            return UNDEFINED, None
        if abs(x) == 1:
            return POLE, None
        return (RATIONAL, Q(0)) if x == 0 else (IRRATIONAL, None)
    if fname == 'erf':
        return (RATIONAL, Q(0)) if x == 0 else (UNKNOWN, None)
    if fname == 'erfc':
        return (RATIONAL, Q(1)) if x == 0 else (UNKNOWN, None)
    if fname == 'tgamma':
        if _is_int(x):
            n = int(x)
            if n <= 0:
                return POLE, None
            if n > 20000:
                return UNKNOWN, None
            f = 1
            for i in range(2, n):
                f *= i
            return RATIONAL, Q(f)
        if _is_int(2 * x):
            return IRRATIONAL, None
        return UNKNOWN, None
    if fname == 'lgamma':
        if _is_int(x):
            n = int(x)
            if n <= 0:
                return POLE, None
            return (RATIONAL, Q(0)) if n in (1, 2) else (IRRATIONAL, None)
        return UNKNOWN, None
    raise ValueError(fname)


# ---------------------------------------------------------------------------
# dyadic endpoints

def _dy(m) -> Optional[tuple]:
    """mpfr -> (mantissa, exponent) python ints; None when not finite"""
    if not g.is_finite(m):
        return None
    if m == 0:
        return (0, 0)
    a, e = m.as_mantissa_exp()
    return (int(a), int(e))


def _dy_cmp_q(d: tuple, q: Fraction) -> int:
    """sign(m*2^e - q)"""
    m, e = d
    n, den = q.numerator, q.denominator
    if e >= 0:
        l, r = (m << e) * den, n
    else:
        l, r = m * den, n << (-e)
    return (l > r) - (l < r)


def _dy_floor_scaled(d: tuple, k: int) -> tuple:
    """(floor(m*2^e / 2^k), m*2^e is a multiple of 2^k) for m >= 0"""
    m, e = d
    sh = e - k
    if sh >= 0:
        return m << sh, True
    return m >> (-sh), (m & ((1 << (-sh)) - 1)) == 0


def _dy_le(a: tuple, b: tuple) -> bool:
    e = min(a[1], b[1])
    return (a[0] << (a[1] - e)) <= (b[0] << (b[1] - e))


def _exact_mpfr(q: Fraction):
    d = q.denominator
    if not _is_pow2(d):
        raise ValueError(f'operand {q} is not a dyadic rational')
    prec = max(2, abs(q.numerator).bit_length())
    with g.context(precision=prec, emin=g.get_emin_min(), emax=g.get_emax_max()):
        m = g.mpfr(g.mpq(q.numerator, d))
    if g.mpq(m) != g.mpq(q.numerator, d):
        raise ValueError(f'operand {q} not exactly convertible')
    return m


def _ctx(P: int, rnd):
    return g.context(precision=P, round=rnd, emin=g.get_emin_min(), emax=g.get_emax_max())


# ---------------------------------------------------------------------------
# functions that saturate at a rational: the distance to the limit is enclosed instead, so that
# a value like 1 - 10^-5000 is located with 64 bits rather than 17000
#   erf x  = 1 - erfc x            (x > 0;  erf is odd)
#   erfc x = 2 - erfc(-x)          (x < 0)
#   tanh x = 1 - 2 / (exp(2x) + 1) (x > 0;  tanh is odd)
# every MPFR step is rounded outward; the final subtraction from 1 or 2 is exact (dyadic).

_SATURATING = ('erf', 'erfc', 'tanh')


def _saturated(fname: str, x: Fraction) -> bool:
    return (x <= -2) if fname == 'erfc' else abs(x) >= 2


def _dy_sub_from(c: int, d: tuple) -> tuple:
    """c - m*2^e exactly"""
    m, e = d
    if e >= 0:
        return (c - (m << e), 0)
    return ((c << (-e)) - m, e)


def _saturating_interval(fname: str, x, P: int):
    D, U = g.RoundDown, g.RoundUp
    neg = x < 0
    with _ctx(P, D):
        ax = abs(x)                       # exact: same significand
    assert abs(g.mpq(ax)) == abs(g.mpq(x))
    if fname in ('erf', 'erfc'):
        with _ctx(P, D):
            vlo = g.erfc(ax)
        with _ctx(P, U):
            vhi = g.erfc(ax)
    else:
        with _ctx(max(P, ax.precision + 2), D):
            x2 = g.mul(ax, 2)
        assert g.mpq(x2) == 2 * g.mpq(ax)
        with _ctx(P, D):
            ulo = g.add(g.exp(x2), 1)
        with _ctx(P, U):
            uhi = g.add(g.exp(x2), 1)
        with _ctx(P, D):
            vlo = g.div(g.mpfr(2), uhi)
        with _ctx(P, U):
            vhi = g.div(g.mpfr(2), ulo)
    dlo, dhi = _dy(vlo), _dy(vhi)
    if dlo is None or dhi is None or dlo[0] <= 0:
        return None, None
    c = 2 if fname == 'erfc' else 1
    lo, hi = _dy_sub_from(c, dhi), _dy_sub_from(c, dlo)      # c - v in [c - vhi, c - vlo]
    if fname != 'erfc' and neg:
        lo, hi = (-hi[0], hi[1]), (-lo[0], lo[1])
    return lo, hi


def _const_interval(name: str, P: int):
    """(lo, hi) as mpfr for a named constant: every step is rounded outward."""
    D, U = g.RoundDown, g.RoundUp

    def both(f):
        with _ctx(P, D):
            lo = f()
        with _ctx(P, U):
            hi = f()
        return lo, hi

    def inv(num: int, lo, hi):
        # num / [lo, hi] for 0 < lo <= hi
        assert lo > 0
        with _ctx(P, D):
            a = g.div(g.mpfr(num), hi)
        with _ctx(P, U):
            b = g.div(g.mpfr(num), lo)
        return a, b

    if name == 'const_pi':
        return both(g.const_pi)
    if name in ('const_pi_2', 'const_pi_4'):
        lo, hi = both(g.const_pi)
        k = 2 if name == 'const_pi_2' else 4
        with _ctx(P, D):
            a = g.div(lo, k)
        with _ctx(P, U):
            b = g.div(hi, k)
        return a, b
    if name == 'const_e':
        return both(lambda: g.exp(g.mpfr(1)))
    if name == 'const_ln2':
        return both(g.const_log2)
    if name == 'const_log2e':                       # 1 / ln 2
        return inv(1, *both(g.const_log2))
    if name == 'const_log10e':                      # 1 / ln 10
        return inv(1, *both(lambda: g.log(g.mpfr(10))))
    if name == 'const_1_pi':
        return inv(1, *both(g.const_pi))
    if name == 'const_2_pi':
        return inv(2, *both(g.const_pi))
    if name == 'const_2_sqrt_pi':
        plo, phi = both(g.const_pi)
        with _ctx(P, D):
            slo = g.sqrt(plo)
        with _ctx(P, U):
            shi = g.sqrt(phi)
        return inv(2, slo, shi)
    if name == 'const_sqrt2':
        return both(lambda: g.sqrt(g.mpfr(2)))
    if name == 'const_sqrt1_2':
        return both(lambda: g.sqrt(g.mpfr(0.5)))
    raise ValueError(name)


class Enclosed:
    """The real number fname(args).  All queries return None when undecided at MAX_PREC."""

    def __init__(self, fname: str, args: tuple = ()):
        self.fname = fname
        self.args = tuple(Fraction(a) for a in args)
        self.kind, self.value = classify(fname, self.args)
        self._enc: dict[int, Optional[tuple]] = {}
        self._margs = None
        self.max_prec_used = 0
        self.evaluations = 0

    def __repr__(self):
        return f'{self.fname}({", ".join(str(a) for a in self.args)})'

    @property
    def is_real(self) -> bool:
        """a finite real value exists (in the domain, not a pole)"""
        return self.kind in (RATIONAL, IRRATIONAL, UNKNOWN)

    @property
    def is_exact(self) -> bool:
        return self.kind == RATIONAL

    # ---- enclosures ---------------------------------------------------
    def enclosure(self, P: int):
        """((mlo, elo), (mhi, ehi)) with lo <= value <= hi, or None when MPFR returned a
        non-finite endpoint (range exhausted) at this precision."""
        assert self.kind in (IRRATIONAL, UNKNOWN)
        if P in self._enc:
            return self._enc[P]
        self.evaluations += 1
        self.max_prec_used = max(self.max_prec_used, P)
        if self.fname in CONSTANTS:
            lo, hi = _const_interval(self.fname, P)
            dlo, dhi = _dy(lo), _dy(hi)
        else:
            if self._margs is None:
                self._margs = tuple(_exact_mpfr(a) for a in self.args)
            if self.fname in _SATURATING and _saturated(self.fname, self.args[0]):
                dlo, dhi = _saturating_interval(self.fname, self._margs[0], P)
            else:
                f = _MPFR[self.fname]
                with _ctx(P, g.RoundDown):
                    lo = f(*self._margs)
                with _ctx(P, g.RoundUp):
                    hi = f(*self._margs)
                dlo, dhi = _dy(lo), _dy(hi)
        if dlo is None or dhi is None:
            enc = None
        else:
            assert _dy_le(dlo, dhi), (self, P)
            enc = (dlo, dhi)
        self._enc[P] = enc
        return enc

    def _ziv(self, decide):
        """runs decide(lo, hi) on growing enclosures until it returns non-None"""
        P = START_PREC
        while P <= MAX_PREC:
            enc = self.enclosure(P)
            if enc is None:
                return None
            res = decide(*enc)
            if res is not None:
                return res
            P *= 2
        return None

    # ---- RealRef interface ---------------------------------------------
    def cmp(self, q) -> Optional[int]:
        """sign(value - q) in {-1, 0, +1}, or None (inconclusive)."""
        q = Fraction(q)
        if self.kind == RATIONAL:
            return (self.value > q) - (self.value < q)
        if not self.is_real:
            raise ValueError(f'{self!r} has no real value ({self.kind})')

        def decide(lo, hi):
            if _dy_cmp_q(lo, q) > 0:
                return 1
            if _dy_cmp_q(hi, q) < 0:
                return -1
            return None
        return self._ziv(decide)

    def sign(self) -> Optional[int]:
        return self.cmp(Fraction(0))

    def ilog2(self) -> Optional[int]:
        """floor(log2 |value|) for a non-zero value"""
        if self.kind == RATIONAL:
            return _ilog2_q(self.value)
        s = self.sign()
        if s is None or s == 0:
            return None

        def decide(lo, hi):
            a, b = (lo, hi) if s > 0 else ((-hi[0], hi[1]), (-lo[0], lo[1]))
            if a[0] <= 0:
                return None
            ea = a[0].bit_length() - 1 + a[1]
            eb = b[0].bit_length() - 1 + b[1]
            return ea if ea == eb else None
        return self._ziv(decide)

    def scaled_floor(self, k: int):
        """(floor(|value| / 2^k), exact?) or None"""
        if self.kind == RATIONAL:
            t = abs(self.value) / (Fraction(2) ** k)
            return t.numerator // t.denominator, t.denominator == 1
        s = self.sign()
        if s is None or s == 0:
            return None

        def decide(lo, hi):
            a, b = (lo, hi) if s > 0 else ((-hi[0], hi[1]), (-lo[0], lo[1]))
            if a[0] <= 0:
                return None
            (na, xa), (nb, _) = _dy_floor_scaled(a, k), _dy_floor_scaled(b, k)
            # decided only when the whole enclosure lies strictly inside one cell
            # (n 2^k, (n+1) 2^k): then |value| / 2^k is certainly not an integer, whatever
            # is or is not known about the irrationality of the value
            if na != nb or xa:
                return None
            return (na, False)
        return self._ziv(decide)


def _ilog2_q(q: Fraction) -> int:
    q = abs(q)
    assert q != 0
    e = q.numerator.bit_length() - q.denominator.bit_length()
    if Fraction(2) ** e > q:
        e -= 1
    elif Fraction(2) ** (e + 1) <= q:
        e += 1
    assert Fraction(2) ** e <= q < Fraction(2) ** (e + 1)
    return e
