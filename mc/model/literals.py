"""
Reader spelling -> exact value for C06 (DESIGN §5 C06).  No fpy2, and never
float(): digits are read with int() and scaled by exact powers.

read_number: one numeric spelling (decimal with optional fraction / exponent,
0x hex-float with a binary `p` exponent, 0x/0b/0o integers, `_` separators as
Python allows them in source) -> (negative?, magnitude as Fraction).
denote_source: the expression texts the check generates (signs, parentheses,
hexfloat("…"), rational(p, q), digits(m, e, b)) -> X (signed zero kept).
"""

import re
from fractions import Fraction

from .xreal import X

_DEC = re.compile(r'(\d*)(?:\.(\d*))?(?:[eE]([-+]?\d+))?')
_HEX = re.compile(r'0[xX]([0-9a-fA-F]*)(?:\.([0-9a-fA-F]*))?(?:[pP]([-+]?\d+))?')
_CALL = re.compile(r'(?:fp\.)?(hexfloat|rational|digits)\((.*)\)')


def read_number(text: str, hex_only: bool = False):
    t = text.strip().replace('_', '')
    neg = t.startswith('-')
    if t[:1] in ('+', '-'):
        t = t[1:]
    if t[:2].lower() in ('0b', '0o') and not hex_only:
        return neg, Fraction(int(t[2:], 2 if t[1] in 'bB' else 8))
    m = _HEX.fullmatch(t)
    base, ebase = (16, 2) if m else (10, 10)
    m = m or (None if hex_only else _DEC.fullmatch(t))
    if not m or not (m.group(1) or m.group(2)):
        raise ValueError(f'not a number: {text!r}')
    ip, fr, ex = m.group(1) or '0', m.group(2) or '', m.group(3) or '0'
    return neg, Fraction(int(ip + fr, base), base ** len(fr)) * Fraction(ebase) ** int(ex)


def denote_source(src: str) -> X:
    s = src.strip()
    if s[:1] == '-':
        return denote_source(s[1:]).neg()
    if s[:1] == '+':
        return denote_source(s[1:])
    if s.startswith('(') and s.endswith(')'):
        return denote_source(s[1:-1])
    m = _CALL.fullmatch(s)
    if m and m.group(1) == 'hexfloat':
        neg, q = read_number(m.group(2).strip()[1:-1], hex_only=True)
    elif m:
        a = [int(t) for t in m.group(2).split(',')]
        q = Fraction(a[0], a[1]) if m.group(1) == 'rational' else Fraction(a[0]) * Fraction(a[2]) ** a[1]
        return X.fin(q)
    else:
        neg, q = read_number(s)
    return X('fin', neg, -q if neg else q)
