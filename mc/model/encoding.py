"""
Independent bit-layout decoders for property C16 (no import of fpy2).

Every layout is written from its *published* description:

* EFloat (`EFloatContext` docstring, `EFloatNanKind` member docstrings, the
  "Small Floats" post it cites): the word is  sign | exponent (es bits) |
  mantissa (m = nbits-1-es bits);  value = (-1)^s * 1.M * 2^(E-bias) for
  E != 0 and (-1)^s * 0.M * 2^(1-bias) for E == 0 (subnormals and zeros), with
  bias = 2^(es-1) - 1 - eoffset (for a zero-width exponent field: bias = -eoffset,
  the same as for es = 1).  Special codes, per NaN kind:
    IEEE_754  "NaNs have the largest exponent": E all ones -> NaN, except that
              mantissa 0 is +/-inf when infinities are enabled;
    MAX_VAL   "NaN has largest exponent and mantissa of all ones" (one code per
              sign); infinity, when enabled, is the code just below it;
    NEG_ZERO  "NaN replaces -0"; infinity, when enabled, is the all-ones code;
    NONE      "No NaNs"; infinity, when enabled, is the all-ones code.
* IEEE = EFloat(es, nbits, inf, IEEE_754, eoffset 0).
* two's complement fixed point: value = int(b) * 2^scale, the top bit weighs
  -2^(nbits-1) when signed.
* sign-magnitude fixed point: value = (-1)^s * (low nbits-1 bits) * 2^scale.
* ExpContext: "NaN is encoded as all ones", code k is 2^(k-bias) with
  bias = 2^(nbits-1) - 1 - eoffset.

The value set of a format is DEFINED as {decode(b) : b a bit pattern}.
Largest/smallest values, ordinals, neighbours and the representability
predicate used as oracles are derived from that set by sorting it - nothing
here mirrors the library's maxval / binade arithmetic.
"""

from __future__ import annotations

from fractions import Fraction

from .xreal import X

NAN_KINDS = ('IEEE_754', 'MAX_VAL', 'NEG_ZERO', 'NONE')


def pow2(e: int) -> Fraction:
    return Fraction(2) ** e if e >= 0 else Fraction(1, 2 ** (-e))


def _ones(n: int) -> int:
    return (1 << n) - 1 if n > 0 else 0


# ---------------------------------------------------------------------------
# layouts
# ---------------------------------------------------------------------------

class Layout:
    family = '?'
    nbits = 0

    def well_formed(self) -> bool:
        """do the field widths make sense at all?"""
        raise NotImplementedError

    def decode(self, b: int) -> X:
        raise NotImplementedError

    def usable(self) -> bool:
        """does the layout describe a usable value set?  (overridden)"""
        return self.well_formed()

    def params(self) -> dict:
        raise NotImplementedError


class EFloatLayout(Layout):
    family = 'efloat'

    def __init__(self, es: int, nbits: int, inf: bool, kind: str, eoffset: int):
        assert kind in NAN_KINDS
        self.es, self.nbits, self.inf, self.kind, self.eoffset = es, nbits, inf, kind, eoffset
        self.m = nbits - 1 - es
        self.bias = (2 ** (es - 1) - 1 if es >= 1 else 0) - eoffset

    def params(self):
        return {'es': self.es, 'nbits': self.nbits, 'inf': self.inf, 'kind': self.kind, 'eoffset': self.eoffset}

    def well_formed(self):
        # one sign bit, es >= 0 exponent bits, m >= 0 mantissa bits
        return self.nbits >= 1 and self.es >= 0 and self.m >= 0

    def fields(self, b: int):
        s = (b >> (self.nbits - 1)) & 1
        E = (b >> self.m) & _ones(self.es)
        M = b & _ones(self.m)
        return s, E, M

    def special(self, b: int):
        """'nan' | 'inf' | None by the NaN-kind rules."""
        s, E, M = self.fields(b)
        emax, mmax = _ones(self.es), _ones(self.m)
        mag = b & _ones(self.nbits - 1)
        top = _ones(self.nbits - 1)
        k = self.kind
        if k == 'IEEE_754':
            if E == emax:
                if self.inf and M == 0:
                    return 'inf'
                return 'nan'
            return None
        if k == 'MAX_VAL':
            if mag == top:
                return 'nan'
            if self.inf and mag == top - 1:
                return 'inf'
            return None
        # NEG_ZERO / NONE
        if self.inf and mag == top:
            return 'inf'
        if k == 'NEG_ZERO' and s == 1 and mag == 0:
            return 'nan'
        return None

    def decode(self, b: int) -> X:
        s, E, M = self.fields(b)
        sp = self.special(b)
        if sp == 'nan':
            return X.nan()
        if sp == 'inf':
            return X.inf(bool(s))
        if E == 0:
            mag = Fraction(M) * pow2(1 - self.bias - self.m)
        else:
            mag = Fraction((1 << self.m) + M) * pow2(E - self.bias - self.m)
        return X('fin', bool(s), -mag if s else mag)

    def usable(self):
        """A layout is usable when the word really has the fields, the all-zero
        word still means +0 (no special code swallowed it), a NaN code exists
        whenever the kind promises NaN, and +/-inf codes exist, distinct from
        NaN, whenever infinities are enabled."""
        if not self.well_formed():
            return False
        vals = [self.decode(b) for b in range(1 << self.nbits)]
        z = vals[0]
        if not (z.isfin and z.q == 0 and not z.s):
            return False
        if self.kind != 'NONE' and not any(v.isnan for v in vals):
            return False
        if self.inf:
            if not any(v.isinf and not v.s for v in vals) or not any(v.isinf and v.s for v in vals):
                return False
        return True


class FixedLayout(Layout):
    family = 'fixed'

    def __init__(self, signed: bool, scale: int, nbits: int):
        self.signed, self.scale, self.nbits = signed, scale, nbits

    def params(self):
        return {'signed': self.signed, 'scale': self.scale, 'nbits': self.nbits}

    def well_formed(self):
        return self.nbits >= 1

    def decode(self, b: int) -> X:
        v = b
        if self.signed and (b >> (self.nbits - 1)) & 1:
            v = b - (1 << self.nbits)
        return X.fin(Fraction(v) * pow2(self.scale))


class SMFixedLayout(Layout):
    family = 'smfixed'

    def __init__(self, scale: int, nbits: int):
        self.scale, self.nbits = scale, nbits

    def params(self):
        return {'scale': self.scale, 'nbits': self.nbits}

    def well_formed(self):
        return self.nbits >= 1

    def decode(self, b: int) -> X:
        s = (b >> (self.nbits - 1)) & 1
        mag = Fraction(b & _ones(self.nbits - 1)) * pow2(self.scale)
        return X('fin', bool(s), -mag if s else mag)


class ExpLayout(Layout):
    family = 'exp'

    def __init__(self, nbits: int, eoffset: int):
        self.nbits, self.eoffset = nbits, eoffset
        self.bias = (2 ** (nbits - 1) - 1 if nbits >= 1 else 0) - eoffset

    def params(self):
        return {'nbits': self.nbits, 'eoffset': self.eoffset}

    def well_formed(self):
        return self.nbits >= 1

    def decode(self, b: int) -> X:
        if b == _ones(self.nbits):
            return X.nan()
        return X.fin(pow2(b - self.bias))


def make_layout(family: str, p: dict) -> Layout:
    if family in ('efloat', 'ieee'):
        if family == 'ieee':
            return EFloatLayout(p['es'], p['nbits'], True, 'IEEE_754', 0)
        return EFloatLayout(p['es'], p['nbits'], p['inf'], p['kind'], p['eoffset'])
    if family == 'fixed':
        return FixedLayout(p['signed'], p['scale'], p['nbits'])
    if family == 'smfixed':
        return SMFixedLayout(p['scale'], p['nbits'])
    if family == 'exp':
        return ExpLayout(p['nbits'], p['eoffset'])
    raise ValueError(family)


# ---------------------------------------------------------------------------
# the value set and everything derived from it by sorting
# ---------------------------------------------------------------------------

class ValueSet:
    """{decode(b)} over all patterns, sorted."""

    def __init__(self, layout: Layout):
        self.layout = layout
        n = layout.nbits
        self.by_pattern = [layout.decode(b) for b in range(1 << n)]
        self.patterns: dict[tuple, list[int]] = {}
        for b, v in enumerate(self.by_pattern):
            self.patterns.setdefault(v.key(), []).append(b)
        self.keys = set(self.patterns)
        self.has_nan = any(k[0] == 'nan' for k in self.keys)
        self.has_pinf = ('inf', False, None) in self.keys
        self.has_ninf = ('inf', True, None) in self.keys
        self.has_pzero = ('fin', False, Fraction(0)) in self.keys
        self.has_nzero = ('fin', True, Fraction(0)) in self.keys
        self.reals = sorted({k[2] for k in self.keys if k[0] == 'fin'})   # zeros identified
        self.index = {q: i for i, q in enumerate(self.reals)}
        pos = [q for q in self.reals if q > 0]
        neg = [q for q in self.reals if q < 0]
        self._maxmag = {False: pos[-1] if pos else None, True: neg[0] if neg else None}
        self._minmag = {False: pos[0] if pos else None, True: neg[-1] if neg else None}

    # membership ---------------------------------------------------------
    def contains(self, x: X) -> bool:
        if x.isnan:
            return self.has_nan
        return x.key() in self.keys

    def contains_real(self, q: Fraction) -> bool:
        return q in self.index

    # extremes -------------------------------------------------------------
    def largest(self):
        return self.reals[-1] if self.reals else None

    def smallest(self):
        return self.reals[0] if self.reals else None

    def maxmag(self, neg: bool):
        """largest-magnitude non-zero value of the given sign, or None."""
        return self._maxmag[bool(neg)]

    def minmag(self, neg: bool):
        """smallest-magnitude non-zero value of the given sign, or None."""
        return self._minmag[bool(neg)]

    # neighbours -----------------------------------------------------------
    def up(self, q: Fraction):
        i = self.index[q]
        return self.reals[i + 1] if i + 1 < len(self.reals) else None

    def down(self, q: Fraction):
        i = self.index[q]
        return self.reals[i - 1] if i > 0 else None

    def zero_key_ok(self, x: X) -> bool:
        """is this (signed) zero a member?"""
        return x.key() in self.keys

    # non-members for the representability test ----------------------------
    def outsiders(self) -> list[Fraction]:
        """Rationals (all dyadic) that are NOT in the set: midpoints of
        neighbours, points beyond both ends, fractions of the least magnitudes,
        sign flips.  Filtered against the set, so every one is a non-member."""
        out = []
        r = self.reals
        for a, b in zip(r, r[1:]):
            out.append((a + b) / 2)
            out.append(a + (b - a) / 4)
        if r:
            hi, lo = r[-1], r[0]
            gap = (r[-1] - r[-2]) if len(r) > 1 else (abs(hi) if hi != 0 else Fraction(1))
            out += [hi + gap, hi + gap / 2, hi * 2 if hi > 0 else hi + 1, hi + abs(hi) + 1]
            out += [lo - gap, lo - gap / 2, lo * 2 if lo < 0 else lo - 1, lo - abs(lo) - 1]
            for neg in (False, True):
                mm = self.minmag(neg)
                if mm is not None:
                    out += [mm / 2, mm / 4, mm * 3 / 2]
            out += [-q for q in r]
        else:
            out += [Fraction(1), Fraction(-1), Fraction(0)]
        seen, res = set(), []
        for q in out:
            if q not in self.index and q not in seen:
                seen.add(q)
                res.append(q)
        return res


def binary_pattern_value(es: int, nbits: int, b: int) -> X:
    """IEEE 754 interchange decode, for the binary16/32/64 comparisons."""
    return EFloatLayout(es, nbits, True, 'IEEE_754', 0).decode(b)
