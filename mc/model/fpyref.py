"""
Reference evaluator for FPy source text (DESIGN §3.3).  No import of fpy2.

Written from docs/source/dev/semantics.rst, derived-semantics.rst and
docs/USAGE.md only.  A direct big-step evaluator:

    <sigma, mu, C, e> || v            expr(e, env, C)
    <sigma, mu, C, s> ||_S o ; mu'    block(stmts, env, C) -> None | ('return', v)

* sigma  : a Python dict per function activation (threaded by mutation),
* mu     : FPy lists are Python lists of values (one cell per element; binding
           shares the list object, slices/comprehensions/constructors build new
           ones holding the same element values),
* C      : the active context, an explicit parameter (so "restored after the
           block" is structural),
* numbers: mc.model.xreal.X (exact rationals, signed zeros, infinities, NaN),
* every rounded operator is  rnd(C, exact_op(args))  through
  mc.model.rounding.round_model; contexts are `Ctx` objects wrapping a
  rounding.Spec built from constructor arguments evaluated under REAL.

The source is parsed with Python's `ast`; numeric literals are re-read from
their source spelling (never through float()).

Two exceptions carry the non-value verdicts:

* `Stuck(why, etype)`   -- no rule applies (failing assert, index out of range,
                           rounding impossible, ...): the implementation must
                           raise; `etype` is set only where the documentation
                           names the error type;
* `Unspecified(why)`    -- the reference is silent: the observation is skipped.

Signed zeros.  The documents' numbers are the reals with the infinities and NaN;
they say nothing about the sign of a zero *produced* by arithmetic.  An exactly
zero result of a rounded operator is therefore an *open-sign zero* (`XO`): it
compares equal to either zero, and an operation whose result depends on the
open sign is Unspecified.  Zeros that are passed through (arguments, selection
by min/max, list elements) and roundings of non-zero values keep their sign.
"""

from __future__ import annotations

import ast
import itertools
import math
from fractions import Fraction

from .xreal import X
from . import rounding as R

Q = Fraction

LOOP_CAP = 5000

STATS = {'inexact': 0}      # inexact roundings performed since the caller last reset it


class Unspecified(Exception):
    """the reference does not determine this observation"""


class Stuck(Exception):
    """evaluation has no derivation; `etype` names the error type iff the docs do"""

    def __init__(self, why: str, etype: str | None = None):
        super().__init__(why)
        self.why = why
        self.etype = etype


class XO(X):
    """a zero whose sign the reference leaves open"""
    __slots__ = ()

    def __repr__(self):
        return '±0'


def open_zero() -> X:
    return XO('fin', False, Q(0))


def is_open(v) -> bool:
    return type(v) is XO


class Foreign:
    """an opaque native value (module, enum class, enum member, ...)"""

    def __init__(self, name: str):
        self.name = name

    def __repr__(self):
        return f'Foreign({self.name})'


class Ctx:
    """a rounding context value: C(.) = round_model(spec, ., mode, ovf)"""

    def __init__(self, spec: R.Spec, mode: str = 'RNE', ovf: str = 'OVERFLOW', text: str = ''):
        self.spec = spec
        self.mode = mode
        self.ovf = ovf
        self.text = text

    def __repr__(self):
        return f'Ctx({self.text})'

    def key(self):
        s = self.spec
        return (s.kind, s.p, s.emin, s.nmin, s.maxpos, s.maxneg, s.has_nan, s.has_inf, s.has_negzero,
                self.mode, self.ovf)


class Prim:
    """a builtin operator / constructor name"""

    def __init__(self, name: str):
        self.name = name

    def __repr__(self):
        return f'Prim({self.name})'


class Func:
    """an FPy function: parameter list, body, declared context (or None)"""

    def __init__(self, name, params, body, ctx):
        self.name = name
        self.params = params
        self.body = body
        self.ctx = ctx


# ---------------------------------------------------------------------------
# contexts (constructor parameters -> Spec), from the class docstrings

def ieee_spec(es: int, nbits: int) -> R.Spec:
    p = nbits - es
    emax = (1 << (es - 1)) - 1
    emin = 1 - emax
    maxv = (Q(2) - Q(2) ** (1 - p)) * Q(2) ** emax
    return R.Spec('float', p=p, emin=emin, maxpos=maxv, maxneg=-maxv,
                  has_nan=True, has_inf=True, has_negzero=True, label=f'IEEE({es},{nbits})')


REAL = Ctx(R.Spec('real', has_nan=True, has_inf=True, label='REAL'), 'RNE', 'OVERFLOW', 'REAL')
FP64 = Ctx(ieee_spec(11, 64), 'RNE', 'OVERFLOW', 'FP64')
FP32 = Ctx(ieee_spec(8, 32), 'RNE', 'OVERFLOW', 'FP32')
FP16 = Ctx(ieee_spec(5, 16), 'RNE', 'OVERFLOW', 'FP16')

MODES = set(R.MODES)
OVERFLOWS = set(R.OVERFLOWS)


def _int_arg(v, name) -> int:
    if isinstance(v, X) and v.isfin and v.q.denominator == 1:
        return int(v.q)
    raise Unspecified(f'constructor argument {name}={v!r} is not an integer')


def _mode_arg(v, default):
    if v is None:
        return default
    if isinstance(v, Foreign) and v.name.startswith('RM.') and v.name[3:] in MODES:
        return v.name[3:]
    raise Unspecified(f'rounding mode {v!r}')


def _ovf_arg(v, default):
    if v is None:
        return default
    if isinstance(v, Foreign) and v.name.startswith('OV.') and v.name[3:] in OVERFLOWS:
        return v.name[3:]
    raise Unspecified(f'overflow mode {v!r}')


def _bool_arg(v, default):
    if v is None:
        return default
    if isinstance(v, bool):
        return v
    raise Unspecified(f'flag {v!r}')


def _bind(names, args, kwargs, who):
    out = dict.fromkeys(names)
    if len(args) > len(names):
        raise Unspecified(f'{who}: too many arguments')
    for n, a in zip(names, args):
        out[n] = a
    for k, v in kwargs.items():
        if k not in out or out[k] is not None:
            raise Unspecified(f'{who}: keyword {k}')
        out[k] = v
    return out


def construct_context(cls: str, args, kwargs) -> Ctx:
    if cls == 'IEEEContext':
        a = _bind(['es', 'nbits', 'rm', 'overflow'], args, kwargs, cls)
        es, nbits = _int_arg(a['es'], 'es'), _int_arg(a['nbits'], 'nbits')
        if es < 2 or nbits <= es + 1 or nbits > 4096:
            raise Unspecified(f'IEEEContext({es},{nbits}) outside the documented domain')
        mode, ovf = _mode_arg(a['rm'], 'RNE'), _ovf_arg(a['overflow'], 'OVERFLOW')
        if ovf == 'WRAP':
            raise Unspecified('WRAP on a float format')
        return Ctx(ieee_spec(es, nbits), mode, ovf, f'IEEE({es},{nbits},{mode},{ovf})')
    if cls == 'MPFixedContext':
        a = _bind(['nmin', 'rm', 'enable_nan', 'enable_inf', 'enable_neg_zero'], args[:2], kwargs, cls)
        if len(args) > 2:
            raise Unspecified('MPFixedContext positional argument past rm')
        nmin = _int_arg(a['nmin'], 'nmin')
        mode = _mode_arg(a['rm'], 'RNE')
        spec = R.Spec('fixed', nmin=nmin, has_nan=_bool_arg(a['enable_nan'], False),
                      has_inf=_bool_arg(a['enable_inf'], False),
                      has_negzero=_bool_arg(a['enable_neg_zero'], True), label=f'MPFixed({nmin})')
        return Ctx(spec, mode, 'OVERFLOW', f'MPFixed({nmin},{mode})')
    if cls == 'MPFloatContext':
        a = _bind(['pmax', 'rm', 'enable_nan', 'enable_inf'], args[:2], kwargs, cls)
        if len(args) > 2:
            raise Unspecified('MPFloatContext positional argument past rm')
        p = _int_arg(a['pmax'], 'pmax')
        if p < 1:
            raise Unspecified('pmax < 1')
        mode = _mode_arg(a['rm'], 'RNE')
        spec = R.Spec('float', p=p, has_nan=_bool_arg(a['enable_nan'], True),
                      has_inf=_bool_arg(a['enable_inf'], True), label=f'MPFloat({p})')
        return Ctx(spec, mode, 'OVERFLOW', f'MPFloat({p},{mode})')
    if cls == 'MPSFloatContext':
        a = _bind(['pmax', 'emin', 'rm', 'enable_nan', 'enable_inf'], args[:3], kwargs, cls)
        if len(args) > 3:
            raise Unspecified('MPSFloatContext positional argument past rm')
        p, emin = _int_arg(a['pmax'], 'pmax'), _int_arg(a['emin'], 'emin')
        if p < 1:
            raise Unspecified('pmax < 1')
        mode = _mode_arg(a['rm'], 'RNE')
        spec = R.Spec('float', p=p, emin=emin, has_nan=_bool_arg(a['enable_nan'], True),
                      has_inf=_bool_arg(a['enable_inf'], True), label=f'MPSFloat({p},{emin})')
        return Ctx(spec, mode, 'OVERFLOW', f'MPSFloat({p},{emin},{mode})')
    raise Unspecified(f'context constructor {cls}')


CONTEXT_CLASSES = {'IEEEContext', 'MPFixedContext', 'MPFloatContext', 'MPSFloatContext'}
CONTEXT_CONSTS = {'REAL': REAL, 'FP64': FP64, 'FP32': FP32, 'FP16': FP16}

# names reachable as `fp.<name>` or (after `from fpy2 import *` / builtins) bare
PRIMS = {
    # rounded operators
    'fma', 'sqrt', 'fabs', 'abs', 'round', 'floor', 'ceil', 'trunc', 'add', 'sub', 'mul', 'div',
    # predicates
    'isnan', 'isinf', 'isfinite', 'signbit',
    # selection / reductions
    'min', 'max', 'fmin', 'fmax', 'sum', 'any', 'all',
    # lists and tuples
    'len', 'size', 'dim', 'range', 'zip', 'enumerate', 'fst', 'snd',
    # literals
    'rational', 'digits', 'hexfloat',
}
PY_BUILTINS = {'abs', 'min', 'max', 'sum', 'any', 'all', 'len', 'range', 'zip', 'enumerate'}


# ---------------------------------------------------------------------------
# rounding and exact operations

def rnd(C: Ctx, x: X) -> X:
    """C(x): the unique admissible rounding, Stuck when the context cannot round x,
    Unspecified when the documentation leaves a choice."""
    if is_open(x):
        outs = {rnd(C, X.zero(s)).key() for s in (False, True)}
        if all(k[0] == 'fin' and k[2] == 0 for k in outs):
            return open_zero() if len(outs) > 1 else X.zero(next(iter(outs))[1])
        raise Unspecified('rounding of an open-sign zero')
    outs = R.round_model(C.spec, x, C.mode, C.ovf)
    vals = {}
    for v, _, _ in outs:
        if isinstance(v, str):
            vals['ERR'] = 'ERR'
        else:
            vals[v.key()] = v
    if len(vals) != 1:
        raise Unspecified(f'rounding {x!r} under {C!r} admits {sorted(map(str, vals))}')
    v = next(iter(vals.values()))
    if isinstance(v, str):
        raise Stuck(f'{C!r} cannot round {x!r}')
    if v.key() != x.key():
        STATS['inexact'] += 1
    return v


def arith(C: Ctx, x: X) -> X:
    """C(exact result of an arithmetic operator).  The documents' numbers are the reals (plus
    the infinities and NaN): an *exactly zero* result is the real 0, so its sign is not
    determined by them (signed zeros only ever appear as values passed through: arguments,
    selection, roundings of non-zero values)."""
    if x.iszero:
        return rnd(C, open_zero())
    return rnd(C, x)


def lift(fn, args):
    """apply `fn` to numbers some of which may be open-sign zeros: the result must not
    depend on the open signs (or be a zero, whose sign is then open too)."""
    idx = [i for i, a in enumerate(args) if is_open(a)]
    if not idx:
        return fn(*args)
    results, errors = [], []
    for signs in itertools.product((False, True), repeat=len(idx)):
        aa = list(args)
        for i, s in zip(idx, signs):
            aa[i] = X.zero(s)
        try:
            results.append(fn(*aa))
        except Stuck as e:
            errors.append(e)
    if errors and results:
        raise Unspecified('definedness depends on the sign of a zero the reference leaves open')
    if errors:
        raise errors[0]
    first = results[0]
    if all(isinstance(r, bool) for r in results):
        if all(r == first for r in results):
            return first
        raise Unspecified('predicate depends on the sign of a zero the reference leaves open')
    if all(isinstance(r, X) for r in results):
        if all(r.key() == first.key() and not is_open(r) for r in results):
            return first
        if all(r.iszero for r in results):
            return open_zero()
    raise Unspecified('result depends on the sign of a zero the reference leaves open')


def x_add(C: Ctx, a: X, b: X) -> X:
    return a.add(b)


def x_floor(a: X) -> X:
    if not a.isfin:
        return a
    n = math.floor(a.q)
    return X.zero(a.s) if n == 0 else X.fin(n)


def x_ceil(a: X) -> X:
    if not a.isfin:
        return a
    n = math.ceil(a.q)
    return X.zero(a.s) if n == 0 else X.fin(n)


def x_trunc(a: X) -> X:
    if not a.isfin:
        return a
    n = math.trunc(a.q)
    return X.zero(a.s) if n == 0 else X.fin(n)


def x_mod(a: X, b: X) -> X:
    """Python-style modulo (sign of the divisor); specials and zero divisors are not documented"""
    if not (a.isfin and b.isfin) or b.iszero:
        raise Unspecified('% with a special operand or a zero divisor')
    r = a.q - math.floor(a.q / b.q) * b.q
    if r == 0:
        return open_zero()
    return X.fin(r)


def x_pow(a: X, b: X) -> X:
    if not (a.isfin and b.isfin) or b.q.denominator != 1:
        raise Unspecified('** with a special operand or a non-integer exponent')
    n = int(b.q)
    if a.iszero:
        raise Unspecified('** with a zero base')
    if abs(n) > 64:
        raise Unspecified('** exponent too large for the reference')
    if n >= 0:
        return X.fin(a.q ** n)
    return X.fin(1 / a.q ** (-n))


def sqrt_rounded(C: Ctx, a: X) -> X:
    """C(sqrt(a)): exactly for perfect squares; otherwise by a 2^-256-relative enclosure
    both ends of which must round alike (rounding is monotone)."""
    if a.isnan:
        return rnd(C, a)
    if a.iszero:
        return rnd(C, a)
    if a.s:
        return rnd(C, X.nan())
    if a.isinf:
        return rnd(C, a)
    n, d = a.q.numerator, a.q.denominator
    rn, rd = math.isqrt(n), math.isqrt(d)
    if rn * rn == n and rd * rd == d:
        return rnd(C, X.fin(Q(rn, rd)))
    if C.spec.kind == 'real':
        raise Unspecified('irrational square root under REAL')
    # sqrt(n/d) = sqrt(n*d)/d ; scale by 4^k
    k = 256 + max(0, (d.bit_length() - n.bit_length()))
    s = math.isqrt(n * d << (2 * k))
    lo = Q(s, d << k)
    hi = Q(s + 1, d << k)
    r1, r2 = rnd(C, X.fin(lo)), rnd(C, X.fin(hi))
    if r1.key() == r2.key():
        return r1
    raise Unspecified('square root too close to a rounding boundary')


def as_int(v, what: str, etype_nonint: str | None = None) -> int:
    if not isinstance(v, X):
        raise Unspecified(f'{what}: not a number')
    if not v.isfin:
        raise Stuck(f'{what}: {v!r} is not an integer')
    if v.q.denominator != 1:
        raise Stuck(f'{what}: {v!r} is not an integer', etype_nonint)
    return int(v.q)


def num(v, what: str) -> X:
    if isinstance(v, X):
        return v
    raise Unspecified(f'{what}: expected a number, got {type(v).__name__}')


def boolean(v, what: str) -> bool:
    if isinstance(v, bool):
        return v
    raise Unspecified(f'{what}: expected a boolean, got {type(v).__name__}')


def lst(v, what: str) -> list:
    if isinstance(v, list):
        return v
    raise Unspecified(f'{what}: expected a list, got {type(v).__name__}')


def maximum(x: X, y: X) -> X:
    """the `maximum` program of the derived semantics"""
    def f(x, y):
        if x.isnan or y.isnan:
            return x if x.isnan else y
        c = x.cmp(y)
        return x if c > 0 or (c == 0 and not x.s) else y
    return _select(f, x, y)


def minimum(x: X, y: X) -> X:
    def f(x, y):
        if x.isnan or y.isnan:
            return x if x.isnan else y
        c = x.cmp(y)
        return x if c < 0 or (c == 0 and x.s) else y
    return _select(f, x, y)


def _select(f, x, y):
    if not (is_open(x) or is_open(y)):
        return f(x, y)
    return lift(f, [x, y])


def values_equal(a, b) -> bool:
    """`==`: E-Pred on any values, element-wise on lists and tuples, rejecting unequal types"""
    if isinstance(a, bool) or isinstance(b, bool):
        if isinstance(a, bool) and isinstance(b, bool):
            return a == b
        raise Stuck('== on operands of unequal type')
    if isinstance(a, X) and isinstance(b, X):
        return a.cmp(b) == 0
    if isinstance(a, list) and isinstance(b, list) or isinstance(a, tuple) and isinstance(b, tuple):
        if len(a) != len(b):
            # same documented type only if the shapes agree for tuples
            if isinstance(a, tuple):
                raise Unspecified('== on tuples of different arity')
            return False
        res = True
        for x, y in zip(a, b):
            if not values_equal(x, y):
                res = False
        return res
    if isinstance(a, (X, list, tuple)) and isinstance(b, (X, list, tuple)):
        raise Stuck('== on operands of unequal type')
    raise Unspecified('== on contexts / foreign values')


# ---------------------------------------------------------------------------
# literals

def read_number(text: str) -> X:
    """the exact real a Python numeric literal spelling denotes"""
    t = text.strip().replace('_', '')
    low = t.lower()
    if low.endswith('j'):
        raise Unspecified('complex literal')
    try:
        if low.startswith(('0x', '0o', '0b')):
            return X.fin(int(low, 0))
        return X.fin(Q(t))          # Fraction parses decimal strings exactly
    except (ValueError, ZeroDivisionError):
        raise Unspecified(f'literal {text!r}')


def read_hexfloat(s: str) -> X:
    t = s.strip().lower()
    neg = t.startswith('-')
    if t[:1] in '+-':
        t = t[1:]
    if t in ('inf', 'infinity'):
        return X.inf(neg)
    if t == 'nan':
        return X.nan()
    if not t.startswith('0x'):
        raise Unspecified(f'hexfloat {s!r}')
    t = t[2:]
    mant, _, ex = t.partition('p')
    ip, _, fp_ = mant.partition('.')
    try:
        m = int((ip + fp_) or '0', 16)
        e = int(ex) if ex else 0
    except ValueError:
        raise Unspecified(f'hexfloat {s!r}')
    q = Q(m) * Q(2) ** (e - 4 * len(fp_))
    return X('fin', neg, -q if neg else q)


# ---------------------------------------------------------------------------
# the evaluator

class Program:
    """All `@fp.fpy` functions (and simple module-level bindings) of one source text."""

    def __init__(self, source: str):
        self.source = source
        self.tree = ast.parse(source)
        self._lines = source.splitlines()
        self._lits: dict = {}
        self.globals: dict = {}
        self.funcs: dict[str, Func] = {}
        for node in self.tree.body:
            if isinstance(node, (ast.Import, ast.ImportFrom)):
                continue
            if isinstance(node, ast.Assign) and len(node.targets) == 1 and isinstance(node.targets[0], ast.Name):
                self.globals[node.targets[0].id] = self.expr(node.value, {}, REAL)
                continue
            if isinstance(node, ast.FunctionDef):
                self._define(node)
                continue
            raise Unspecified(f'module-level {type(node).__name__}')

    def _define(self, node: ast.FunctionDef):
        ctx = None
        is_fpy = False
        for d in node.decorator_list:
            target = d.func if isinstance(d, ast.Call) else d
            if not (isinstance(target, ast.Attribute) and target.attr == 'fpy'
                    or isinstance(target, ast.Name) and target.id == 'fpy'):
                raise Unspecified('decorator other than fpy')
            is_fpy = True
            if isinstance(d, ast.Call):
                if d.args:
                    raise Unspecified('positional decorator argument')
                for kw in d.keywords:
                    if kw.arg == 'ctx':
                        ctx = self.expr(kw.value, {}, REAL)
                        if ctx is not None and not isinstance(ctx, Ctx):
                            raise Unspecified('declared ctx is not a context')
                    else:
                        raise Unspecified(f'decorator keyword {kw.arg}')
        if not is_fpy:
            raise Unspecified('undecorated function')
        a = node.args
        if a.vararg or a.kwarg or a.kwonlyargs or a.defaults:
            raise Unspecified('non-positional parameters')
        params = [p.arg for p in a.posonlyargs + a.args]
        body = node.body
        if body and isinstance(body[0], ast.Expr) and isinstance(body[0].value, ast.Constant) \
                and isinstance(body[0].value.value, str):
            body = body[1:]
        self.funcs[node.name] = Func(node.name, params, body, ctx)

    # ---- entry points -----------------------------------------------------
    def call_from_python(self, name: str, args, ctx: Ctx | None = None):
        """A call from Python: with no context the function runs under IEEE double;
        arguments are not rounded on entry; list arguments are the host's (fresh cells)."""
        fn = self.funcs[name]
        C = FP64 if ctx is None else ctx
        return self.apply(fn, [copy_in(a) for a in args], C)

    def apply(self, fn: Func, args: list, C: Ctx):
        """E-App: fresh environment binding only the parameters; the callee's declared
        context if it has one, else the caller's; the body must return."""
        if len(args) != len(fn.params):
            raise Unspecified('arity mismatch')
        Cb = fn.ctx if fn.ctx is not None else C
        env = dict(zip(fn.params, args))
        out = self.block(fn.body, env, Cb)
        if out is None:
            raise Stuck('function body completed without returning')
        return out[1]

    # ---- statements ---------------------------------------------------------
    def block(self, stmts, env, C):
        for s in stmts:
            out = self.stmt(s, env, C)
            if out is not None:
                return out              # E-Seq-Return
        return None                     # E-Seq-Normal / E-Skip

    def stmt(self, s, env, C):
        if isinstance(s, ast.Assign):
            if len(s.targets) != 1:
                raise Unspecified('chained assignment')
            t = s.targets[0]
            if isinstance(t, ast.Subscript):
                return self.indexed_assign(t, s.value, env, C)
            v = self.expr(s.value, env, C)
            self.match(t, v, env)
            return None
        if isinstance(s, ast.AnnAssign):
            if s.value is None or not isinstance(s.target, ast.Name):
                raise Unspecified('annotated assignment form')
            env[s.target.id] = self.expr(s.value, env, C)
            return None
        if isinstance(s, ast.AugAssign):
            if not isinstance(s.target, ast.Name):
                raise Unspecified('augmented assignment target')
            cur = self.lookup(s.target.id, env)
            rhs = self.expr(s.value, env, C)
            env[s.target.id] = self.binop(s.op, cur, rhs, C)
            return None
        if isinstance(s, ast.If):
            c = boolean(self.expr(s.test, env, C), 'if condition')
            if c:
                return self.block(s.body, env, C)
            return self.block(s.orelse, env, C)          # one-armed: else skip
        if isinstance(s, ast.While):
            if s.orelse:
                raise Unspecified('while-else')
            n = 0
            while boolean(self.expr(s.test, env, C), 'while condition'):
                out = self.block(s.body, env, C)
                if out is not None:
                    return out
                n += 1
                if n > LOOP_CAP:
                    raise Unspecified('loop did not terminate within the cap')
            return None
        if isinstance(s, ast.For):
            if s.orelse:
                raise Unspecified('for-else')
            xs = lst(self.expr(s.iter, env, C), 'for iterable')
            # index loop over the list: i < len(xs); x = xs[i]  (the length is fixed)
            i = 0
            while i < len(xs):
                self.match(s.target, xs[i], env)
                out = self.block(s.body, env, C)
                if out is not None:
                    return out
                i += 1
            return None
        if isinstance(s, ast.With):
            if len(s.items) != 1:
                raise Unspecified('with statement with several items')
            item = s.items[0]
            C2 = self.expr(item.context_expr, env, REAL)          # E-Context: under R
            if not isinstance(C2, Ctx):
                raise Unspecified('with expression is not a context')
            if item.optional_vars is not None:
                if not isinstance(item.optional_vars, ast.Name):
                    raise Unspecified('with target')
                env[item.optional_vars.id] = C2
            return self.block(s.body, env, C2)
        if isinstance(s, ast.Return):
            if s.value is None:
                raise Unspecified('bare return')
            return ('return', self.expr(s.value, env, C))
        if isinstance(s, ast.Assert):
            c = boolean(self.expr(s.test, env, C), 'assert test')
            if not c:
                raise Stuck('assertion failed')
            return None
        if isinstance(s, ast.Pass):
            return None
        if isinstance(s, ast.Expr):
            self.expr(s.value, env, C)
            return None
        raise Unspecified(f'statement {type(s).__name__}')

    def match(self, p, v, env):
        """M-Var / M-Tuple"""
        if isinstance(p, ast.Name):
            if p.id != '_':
                env[p.id] = v
            return
        if isinstance(p, ast.Tuple):
            if not isinstance(v, tuple):
                raise Unspecified('tuple pattern against a non-tuple')
            if len(v) != len(p.elts):
                raise Stuck('tuple pattern arity')
            names = [n.id for n in ast.walk(p) if isinstance(n, ast.Name) and n.id != '_']
            if len(set(names)) != len(names):
                raise Unspecified('pattern binds a name twice')
            for q, w in zip(p.elts, v):
                self.match(q, w, env)
            return
        raise Unspecified('pattern form')

    def indexed_assign(self, t: ast.Subscript, value, env, C):
        """xs[i]...[j] = e  ==  E-Index to the cell, then E-Update through it"""
        idx_nodes = []
        node = t
        while isinstance(node, ast.Subscript):
            if isinstance(node.slice, ast.Slice):
                raise Unspecified('slice assignment')
            idx_nodes.append(node.slice)
            node = node.value
        if not isinstance(node, ast.Name):
            raise Unspecified('indexed assignment base')
        idx_nodes.reverse()
        if any(has_user_call(self, n) for n in idx_nodes) and has_user_call(self, value):
            raise Unspecified('evaluation order of index and value sides of an indexed assignment')
        cell_owner = self.lookup(node.id, env)
        idxs = [self.expr(n, env, C) for n in idx_nodes]
        v = self.expr(value, env, C)
        for k, i in enumerate(idxs):
            xs = lst(cell_owner, 'indexed assignment')
            n = as_int(i, 'list index')
            if not 0 <= n < len(xs):
                raise Stuck('list index out of range')
            if k == len(idxs) - 1:
                xs[n] = v
            else:
                cell_owner = xs[n]
        return None

    # ---- expressions --------------------------------------------------------
    def lookup(self, name: str, env):
        if name in env:
            return env[name]
        if name in self.globals:
            return self.globals[name]
        if name in self.funcs:
            return self.funcs[name]
        if name == 'fp' or name == 'fpy2':
            return Foreign('fp')
        if name in CONTEXT_CONSTS:
            return CONTEXT_CONSTS[name]
        if name in CONTEXT_CLASSES or name in PRIMS:
            return Prim(name)
        if name in ('RM', 'OV'):
            return Foreign(name)
        raise Stuck(f'name {name!r} is not bound')

    def attribute(self, base, attr: str):
        if isinstance(base, Foreign):
            if base.name == 'fp':
                if attr in CONTEXT_CONSTS:
                    return CONTEXT_CONSTS[attr]
                if attr in ('RM', 'RoundingMode'):
                    return Foreign('RM')
                if attr in ('OV', 'OverflowMode'):
                    return Foreign('OV')
                if attr in CONTEXT_CLASSES or (attr in PRIMS and attr not in PY_BUILTINS) or attr in ('fabs',):
                    return Prim(attr)
                raise Unspecified(f'fp.{attr}')
            if base.name == 'RM' and attr in MODES:
                return Foreign('RM.' + attr)
            if base.name == 'OV' and attr in OVERFLOWS:
                return Foreign('OV.' + attr)
        raise Unspecified(f'attribute .{attr} of {base!r}')

    def literal(self, e: ast.Constant) -> X:
        """the exact value of a numeric literal, re-read from its source spelling"""
        v = self._lits.get(id(e))
        if v is None:
            if e.lineno != e.end_lineno:
                raise Unspecified('literal spanning lines')
            line = self._lines[e.lineno - 1].encode('utf-8')
            seg = line[e.col_offset:e.end_col_offset].decode('utf-8')
            v = read_number(seg)
            self._lits[id(e)] = v
        return v

    def expr(self, e, env, C):
        if isinstance(e, ast.Constant):
            if isinstance(e.value, bool):
                return e.value
            if isinstance(e.value, (int, float)):
                return self.literal(e)                      # E-Val: exact, nothing rounds
            if isinstance(e.value, str) or e.value is None:
                return Foreign(repr(e.value))
            raise Unspecified('constant')
        if isinstance(e, ast.Name):
            return self.lookup(e.id, env)
        if isinstance(e, ast.Attribute):
            return self.attribute(self.expr(e.value, env, C), e.attr)
        if isinstance(e, ast.UnaryOp):
            if isinstance(e.op, ast.Not):
                return not boolean(self.expr(e.operand, env, C), 'not')
            if isinstance(e.op, ast.USub):
                if isinstance(e.operand, ast.Constant) and isinstance(e.operand.value, (int, float)) \
                        and not isinstance(e.operand.value, bool):
                    # `-3`: a negative literal (exact) or Neg of a literal (rounded)?  Both readings
                    # must agree for the reference to say anything.
                    lit = self.literal(e.operand).neg()
                    r = rnd(C, lit)
                    if r.key() != lit.key():
                        raise Unspecified('negated literal not representable in the active context')
                    return lit
                a = num(self.expr(e.operand, env, C), 'unary -')
                return lift(lambda a: arith(C, a.neg()), [a])
            raise Unspecified(f'unary operator {type(e.op).__name__}')
        if isinstance(e, ast.BinOp):
            a = self.expr(e.left, env, C)
            b = self.expr(e.right, env, C)
            return self.binop(e.op, a, b, C)
        if isinstance(e, ast.BoolOp):
            # a and b == b if a else False ; a or b == True if a else b
            is_and = isinstance(e.op, ast.And)
            res = None
            for k, operand in enumerate(e.values):
                res = boolean(self.expr(operand, env, C), 'and/or operand')
                if res != is_and:
                    return res
            return res
        if isinstance(e, ast.Compare):
            return self.compare(e, env, C)
        if isinstance(e, ast.IfExp):
            c = boolean(self.expr(e.test, env, C), 'if-expression condition')
            return self.expr(e.body if c else e.orelse, env, C)
        if isinstance(e, ast.Tuple):
            return tuple(self.expr(x, env, C) for x in e.elts)
        if isinstance(e, ast.List):
            return [self.expr(x, env, C) for x in e.elts]       # a fresh cell per element
        if isinstance(e, ast.ListComp):
            return self.listcomp(e, env, C)
        if isinstance(e, ast.Subscript):
            xs = self.expr(e.value, env, C)
            if isinstance(e.slice, ast.Slice):
                return self.slice(xs, e.slice, env, C)
            i = self.expr(e.slice, env, C)
            if isinstance(xs, tuple):
                raise Unspecified('tuples cannot be indexed')
            xs = lst(xs, 'indexing')
            n = as_int(i, 'list index')
            if not 0 <= n < len(xs):
                raise Stuck('list index out of range')
            return xs[n]
        if isinstance(e, ast.Call):
            return self.call(e, env, C)
        raise Unspecified(f'expression {type(e).__name__}')

    def binop(self, op, a, b, C):
        a, b = num(a, 'arithmetic operand'), num(b, 'arithmetic operand')
        if isinstance(op, ast.Add):
            return lift(lambda a, b: arith(C, x_add(C, a, b)), [a, b])
        if isinstance(op, ast.Sub):
            return lift(lambda a, b: arith(C, x_add(C, a, b.neg())), [a, b])
        if isinstance(op, ast.Mult):
            return lift(lambda a, b: arith(C, a.mul(b)), [a, b])
        if isinstance(op, ast.Div):
            return lift(lambda a, b: arith(C, a.div(b)), [a, b])
        if isinstance(op, ast.Mod):
            return lift(lambda a, b: arith(C, x_mod(a, b)), [a, b])
        if isinstance(op, ast.Pow):
            return lift(lambda a, b: arith(C, x_pow(a, b)), [a, b])
        raise Unspecified(f'binary operator {type(op).__name__}')

    def compare(self, e: ast.Compare, env, C):
        """a < b <= c == (a < b) and (b <= c), each operand evaluated at most once"""
        left = self.expr(e.left, env, C)
        for op, rhs_node in zip(e.ops, e.comparators):
            right = self.expr(rhs_node, env, C)
            if isinstance(op, (ast.Eq, ast.NotEq)):
                r = values_equal(left, right)
                if isinstance(op, ast.NotEq):
                    r = not r
            elif isinstance(op, (ast.Lt, ast.LtE, ast.Gt, ast.GtE)):
                a, b = num(left, 'ordering operand'), num(right, 'ordering operand')
                c = a.cmp(b)
                if c is None:
                    r = False                       # NaN is unordered
                elif isinstance(op, ast.Lt):
                    r = c < 0
                elif isinstance(op, ast.LtE):
                    r = c <= 0
                elif isinstance(op, ast.Gt):
                    r = c > 0
                else:
                    r = c >= 0
            else:
                raise Unspecified(f'comparator {type(op).__name__}')
            if not r:
                return False
            left = right
        return True

    def listcomp(self, e: ast.ListComp, env, C):
        """k generators == k nested loops; element evaluated under the active context"""
        out = []
        scope = dict(env)

        def loop(k):
            if k == len(e.generators):
                out.append(self.expr(e.elt, scope, C))
                return
            g = e.generators[k]
            if g.ifs or g.is_async:
                raise Unspecified('comprehension condition')
            xs = lst(self.expr(g.iter, scope, C), 'comprehension iterable')
            i = 0
            while i < len(xs):
                self.match(g.target, xs[i], scope)
                loop(k + 1)
                i += 1
        loop(0)
        return out

    def slice(self, xs, sl: ast.Slice, env, C):
        """xs[start:stop] extracts exactly stop-start elements; bounds are not clamped"""
        xs = lst(xs, 'slicing')
        if sl.step is not None:
            raise Unspecified('slice step')
        # the documented `slice(xs, start, stop)` takes the bounds as arguments: both are evaluated
        # before either is examined
        lo_v = None if sl.lower is None else self.expr(sl.lower, env, C)
        hi_v = None if sl.upper is None else self.expr(sl.upper, env, C)
        lo = 0 if lo_v is None else as_int(lo_v, 'slice bound', 'TypeError')
        hi = len(xs) if hi_v is None else as_int(hi_v, 'slice bound', 'TypeError')
        if not 0 <= lo <= hi <= len(xs):
            raise Stuck('slice bounds', 'IndexError')
        return [xs[i] for i in range(lo, hi)]

    def call(self, e: ast.Call, env, C):
        f = self.expr(e.func, env, C)
        if isinstance(f, Func):
            if e.keywords:
                raise Unspecified('keyword arguments to an FPy function')
            args = [self.expr(a, env, C) for a in e.args]
            return self.apply(f, args, C)           # arguments are shared, never rounded
        if not isinstance(f, Prim):
            raise Unspecified(f'call of {f!r}')
        name = f.name
        if name in CONTEXT_CLASSES:
            args = [self.expr(a, env, C) for a in e.args]
            kwargs = {kw.arg: self.expr(kw.value, env, C) for kw in e.keywords}
            return construct_context(name, args, kwargs)
        if e.keywords:
            raise Unspecified('keyword arguments to a builtin')
        # literals with their own syntax
        if name == 'rational':
            p, q = self._int_literals(e, 2)
            if q == 0:
                raise Unspecified('rational with zero denominator')
            return X.fin(Q(p, q))
        if name == 'digits':
            m, ex, b = self._int_literals(e, 3)
            if b < 2:
                raise Unspecified('digits base')
            return X.fin(Q(m) * Q(b) ** ex)
        if name == 'hexfloat':
            if len(e.args) != 1 or not (isinstance(e.args[0], ast.Constant) and isinstance(e.args[0].value, str)):
                raise Unspecified('hexfloat argument')
            return read_hexfloat(e.args[0].value)
        args = [self.expr(a, env, C) for a in e.args]
        return self.prim(name, args, C)

    def _int_literals(self, e: ast.Call, n: int):
        if len(e.args) != n:
            raise Unspecified('literal constructor arity')
        out = []
        for a in e.args:
            neg = False
            if isinstance(a, ast.UnaryOp) and isinstance(a.op, ast.USub):
                neg, a = True, a.operand
            if not (isinstance(a, ast.Constant) and isinstance(a.value, int) and not isinstance(a.value, bool)):
                raise Unspecified('literal constructor argument')
            v = self.literal(a)
            out.append(-int(v.q) if neg else int(v.q))
        return out

    def prim(self, name: str, args: list, C: Ctx):
        n = len(args)

        def arity(k):
            if n != k:
                raise Unspecified(f'{name} expects {k} arguments')

        # ---- rounded operators (E-Op) ----
        if name in ('abs', 'fabs'):
            arity(1)
            return lift(lambda a: arith(C, a.abs()), [num(args[0], name)])
        if name == 'round':
            arity(1)
            return rnd(C, num(args[0], name))
        if name in ('floor', 'ceil', 'trunc'):
            arity(1)
            fn = {'floor': x_floor, 'ceil': x_ceil, 'trunc': x_trunc}[name]
            return lift(lambda a: arith(C, fn(a)), [num(args[0], name)])
        if name == 'sqrt':
            arity(1)
            return lift(lambda a: sqrt_rounded(C, a), [num(args[0], name)])
        if name == 'fma':
            arity(3)
            a, b, c = (num(v, name) for v in args)
            return lift(lambda a, b, c: arith(C, x_add(C, a.mul(b), c)), [a, b, c])
        if name in ('add', 'sub', 'mul', 'div'):
            arity(2)
            op = {'add': ast.Add(), 'sub': ast.Sub(), 'mul': ast.Mult(), 'div': ast.Div()}[name]
            return self.binop(op, args[0], args[1], C)
        # ---- predicates (E-Pred) ----
        if name == 'isnan':
            arity(1)
            return num(args[0], name).isnan
        if name == 'isinf':
            arity(1)
            return num(args[0], name).isinf
        if name == 'isfinite':
            arity(1)
            return num(args[0], name).isfin
        if name == 'signbit':
            arity(1)
            a = num(args[0], name)
            if a.isnan:
                raise Unspecified('sign of NaN')
            return lift(lambda a: bool(a.s), [a])
        # ---- selection ----
        if name in ('min', 'max', 'fmin', 'fmax'):
            sel = minimum if name in ('min', 'fmin') else maximum
            if n == 0:
                raise Unspecified(f'{name} without arguments')
            if n == 1:
                vals = lst(args[0], name)
                if len(vals) == 0:
                    raise Stuck(f'{name} of an empty list')
            else:
                vals = args
            acc = num(vals[0], name)
            for v in vals[1:]:
                acc = sel(acc, num(v, name))
            return acc
        # ---- reductions ----
        if name == 'sum':
            arity(1)
            xs = lst(args[0], name)
            if len(xs) == 0:
                return X.zero(False)            # the empty sum is exact 0
            acc = num(xs[0], name)
            for v in xs[1:]:
                acc = self.binop(ast.Add(), acc, num(v, name), C)
            return acc
        if name in ('any', 'all'):
            arity(1)
            bs = lst(args[0], name)
            for b in bs:
                if not isinstance(b, bool):
                    raise Stuck(f'{name} of a non-boolean element', 'TypeError')
            return any(bs) if name == 'any' else all(bs)
        # ---- lists / tuples ----
        if name == 'len':
            arity(1)
            return X.fin(len(lst(args[0], name)))
        if name == 'size':
            # fp.size(xs, k): exact integer count along dimension k; only k = 0 is modelled
            arity(2)
            xs = lst(args[0], name)
            if as_int(num(args[1], name), 'size dimension') != 0:
                raise Unspecified('size along an inner dimension')
            return X.fin(len(xs))
        if name == 'dim':
            # fp.dim(xs): exact count of nesting levels (of a non-ragged, non-empty tensor)
            arity(1)
            x, d = lst(args[0], name), 0
            while isinstance(x, list):
                d += 1
                if len(x) == 0:
                    raise Unspecified('dim of a tensor with an empty level')
                x = x[0]
            return X.fin(d)
        if name == 'range':
            if n not in (1, 2, 3):
                raise Unspecified('range arity')
            ints = [as_int(num(a, name), 'range argument') for a in args]
            if n == 3 and ints[2] == 0:
                raise Stuck('range step 0')
            if len(range(*ints)) > LOOP_CAP:
                raise Unspecified('range too long for the reference')
            return [X.fin(i) for i in range(*ints)]
        if name == 'enumerate':
            arity(1)
            xs = lst(args[0], name)
            return [(X.fin(i), v) for i, v in enumerate(xs)]
        if name == 'zip':
            if n == 0:
                raise Unspecified('zip without arguments')
            ls = [lst(a, name) for a in args]
            m = len(ls[0])
            if any(len(x) < m for x in ls):
                raise Stuck('zip of lists of unequal length')       # the defining program indexes past the end
            if any(len(x) > m for x in ls):
                raise Unspecified('zip of lists of unequal length is undefined')
            return [tuple(x[i] for x in ls) for i in range(m)]
        if name in ('fst', 'snd'):
            arity(1)
            t = args[0]
            if not isinstance(t, tuple) or len(t) != 2:
                raise Unspecified(f'{name} of something other than a pair')
            return t[0] if name == 'fst' else t[1]
        raise Unspecified(f'builtin {name}')


def has_user_call(prog: Program, node) -> bool:
    for n in ast.walk(node):
        if isinstance(n, ast.Call) and isinstance(n.func, ast.Name) and n.func.id in prog.funcs:
            return True
    return False


def copy_in(v):
    """a value handed over by the host: containers are the host's own (fresh cells)"""
    if isinstance(v, list):
        return [copy_in(x) for x in v]
    if isinstance(v, tuple):
        return tuple(copy_in(x) for x in v)
    return v


# ---------------------------------------------------------------------------
# comparison of a reference value with an observed value (already mapped to X / bool / list / tuple)

def same_value(ref, got) -> bool:
    if isinstance(ref, bool) or isinstance(got, bool):
        return isinstance(ref, bool) and isinstance(got, bool) and ref == got
    if isinstance(ref, X):
        if not isinstance(got, X):
            return False
        if is_open(ref):
            return got.iszero
        return ref.same(got)
    if isinstance(ref, list):
        return isinstance(got, list) and len(ref) == len(got) and all(same_value(a, b) for a, b in zip(ref, got))
    if isinstance(ref, tuple):
        return isinstance(got, tuple) and len(ref) == len(got) and all(same_value(a, b) for a, b in zip(ref, got))
    if isinstance(ref, Ctx):
        return isinstance(got, Ctx) and ref.key() == got.key()
    return False


def show(v) -> str:
    if isinstance(v, list):
        return '[' + ', '.join(show(x) for x in v) + ']'
    if isinstance(v, tuple):
        return '(' + ', '.join(show(x) for x in v) + (',)' if len(v) == 1 else ')')
    return repr(v)
