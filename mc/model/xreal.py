"""
Extended reals for the reference models: exact rationals, signed zeros,
signed infinities and NaN.  No import of fpy2 anywhere in mc/model.

X is immutable.  `kind` is 'nan' | 'inf' | 'fin'.  For 'fin', `q` is a
Fraction (possibly 0) and `s` is the sign bit (meaningful for zero; for
non-zero values it equals q < 0).
"""

from __future__ import annotations

import math
from fractions import Fraction


class X:
    __slots__ = ('kind', 's', 'q')

    def __init__(self, kind: str, s: bool = False, q: Fraction | None = None):
        self.kind = kind
        if kind == 'fin':
            q = Fraction(q)
            if q != 0:
                s = q < 0
            self.q = q
        else:
            self.q = None
        self.s = bool(s)

    # constructors -----------------------------------------------------
    @staticmethod
    def fin(q, s: bool = False) -> 'X':
        return X('fin', s, Fraction(q))

    @staticmethod
    def zero(s: bool = False) -> 'X':
        return X('fin', s, Fraction(0))

    @staticmethod
    def inf(s: bool = False) -> 'X':
        return X('inf', s)

    @staticmethod
    def nan() -> 'X':
        return X('nan')

    @staticmethod
    def from_pyfloat(f: float) -> 'X':
        if math.isnan(f):
            return X.nan()
        if math.isinf(f):
            return X.inf(f < 0)
        if f == 0:
            return X.zero(math.copysign(1.0, f) < 0)
        return X.fin(Fraction(f))

    # predicates -------------------------------------------------------
    @property
    def isnan(self):
        return self.kind == 'nan'

    @property
    def isinf(self):
        return self.kind == 'inf'

    @property
    def isfin(self):
        return self.kind == 'fin'

    @property
    def iszero(self):
        return self.kind == 'fin' and self.q == 0

    def __repr__(self):
        if self.kind == 'nan':
            return 'NaN'
        if self.kind == 'inf':
            return '-inf' if self.s else '+inf'
        if self.q == 0:
            return '-0' if self.s else '+0'
        return str(self.q)

    def key(self):
        """hashable canonical key (sign of zero distinguished)."""
        return (self.kind, self.s, self.q)

    def same(self, other: 'X', zero_sign: bool = True) -> bool:
        """same denotation: NaN = NaN, infinities by sign, zeros by sign when
        `zero_sign`, finite by rational equality."""
        if self.kind != other.kind:
            return False
        if self.kind == 'nan':
            return True
        if self.kind == 'inf':
            return self.s == other.s
        if self.q != other.q:
            return False
        if self.q == 0 and zero_sign:
            return self.s == other.s
        return True

    # arithmetic (IEEE 754 rules for specials; exact otherwise) ---------
    def neg(self) -> 'X':
        if self.kind == 'nan':
            return self
        if self.kind == 'inf':
            return X.inf(not self.s)
        return X('fin', not self.s, -self.q)

    def abs(self) -> 'X':
        if self.kind == 'nan':
            return self
        if self.kind == 'inf':
            return X.inf(False)
        return X('fin', False, abs(self.q))

    def add(self, o: 'X') -> 'X':
        if self.isnan or o.isnan:
            return X.nan()
        if self.isinf:
            if o.isinf and o.s != self.s:
                return X.nan()
            return self
        if o.isinf:
            return o
        r = self.q + o.q
        if r == 0:
            # exact zero sum: -0 only if both operands are -0 (RNE-style);
            # callers that care about RTN handle it themselves
            if self.q == 0 and o.q == 0:
                return X.zero(self.s and o.s)
            return X.zero(False)
        return X.fin(r)

    def sub(self, o: 'X') -> 'X':
        return self.add(o.neg())

    def mul(self, o: 'X') -> 'X':
        if self.isnan or o.isnan:
            return X.nan()
        s = self.s != o.s
        if self.isinf or o.isinf:
            if self.iszero or o.iszero:
                return X.nan()
            return X.inf(s)
        return X('fin', s, self.q * o.q)

    def div(self, o: 'X') -> 'X':
        if self.isnan or o.isnan:
            return X.nan()
        s = self.s != o.s
        if self.isinf:
            if o.isinf:
                return X.nan()
            return X.inf(s)
        if o.isinf:
            return X.zero(s)
        if o.iszero:
            if self.iszero:
                return X.nan()
            return X.inf(s)
        return X('fin', s, self.q / o.q)

    def powi(self, n: int) -> 'X':
        """x ** n for integer n >= 0, with x**0 = 1 for every x."""
        assert n >= 0
        if n == 0:
            return X.fin(1)
        if self.isnan:
            return self
        s = self.s and (n % 2 == 1)
        if self.isinf:
            return X.inf(s)
        return X('fin', s, self.q ** n)

    def cmp(self, o: 'X'):
        """-1, 0, +1, or None when unordered.  Zeros compare equal."""
        if self.isnan or o.isnan:
            return None
        if self.isinf:
            if o.isinf and o.s == self.s:
                return 0
            return -1 if self.s else 1
        if o.isinf:
            return 1 if o.s else -1
        return (self.q > o.q) - (self.q < o.q)


def denote(v) -> X:
    """Denotation of a native Python number (int, float, Fraction)."""
    if isinstance(v, bool):
        raise TypeError('bool is not a number here')
    if isinstance(v, int):
        return X.fin(Fraction(v))
    if isinstance(v, float):
        return X.from_pyfloat(v)
    if isinstance(v, Fraction):
        return X.fin(v)
    raise TypeError(type(v))
