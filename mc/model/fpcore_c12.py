"""
A small reference evaluator for FPCore *text*, written from the FPCore 2.0
standard (fpbench.org/spec/fpcore-2.0.html) for the C12 check.  No import of
fpy2 or titanfp: the input is the printed S-expression.

Role: titanfp's `mpmf.Interpreter` is the reference evaluator named by the
property (trusted base).  This evaluator is the automated form of the hand
triage the design asks for ("hand-evaluating the emitted FPCore text against the
standard's annotation scoping"): when titanfp and the FPy interpreter disagree,
it tells a quirk of titanfp (overflow under a directed rounding mode returns
infinity, the sign of an exactly cancelled sum under toNegative) from a core
that really means something else.

Semantics implemented (only what the FPCore backend of fpy2 can emit):

* a rounding context is a property dictionary; `(! :k v ... e)` evaluates `e`
  under the dictionary updated with the given properties (all others are
  inherited) and applies to `e` only;
* a numeric literal is rounded under the context in force where it stands; a
  variable reference is not rounded; every arithmetic operation computes the
  exact result of its (already rounded) operands and rounds it once under the
  context in force where the *operation* stands; `cast` rounds its argument;
* comparisons and boolean operations are exact; `let` binds simultaneously,
  `let*` sequentially; `while` / `for` evaluate the initialisers in the
  enclosing scope, update simultaneously (`while*` / `for*` sequentially);
  `for` iterates the index space in row-major order; `tensor` builds an array;
* precisions: binary16/32/64/128, (float es nbits), integer, real; rounding
  modes by their standard names; IEEE 754 rules for specials and signed zeros.

Anything else raises `Unsupported` (the caller then has no arbiter and keeps
titanfp's answer).  `RefError` means the core is wrong by the standard's own
rules (unbound variable, index out of range, `ref` of a scalar, ...); its subclass
`Undefined` means the standard gives no value (NaN or infinity under `integer`).
"""

from __future__ import annotations

import math
import re
from fractions import Fraction

from . import rounding as R
from .xreal import X


class Unsupported(Exception):
    pass


class RefError(Exception):
    """the core does not evaluate under the standard's rules"""


class Undefined(RefError):
    """the standard gives the core no value here (NaN / infinity under `integer`)"""


class ArgumentNotRepresentable(Unsupported):
    """an argument is not a value of the core's own rounding context (the standard takes
    arguments to be values of that precision; evaluators differ on what to do otherwise)"""


class Diverged(Exception):
    pass


# ---------------------------------------------------------------------------
# S-expressions

_TOKEN = re.compile(r'\s*(?:(;[^\n]*)|([()\[\]])|("(?:[^"\\]|\\.)*")|([^\s()\[\]"]+))')


def parse_sexp(text: str):
    pos = 0
    stack: list[list] = [[]]
    n = len(text)
    while pos < n:
        m = _TOKEN.match(text, pos)
        if m is None:
            if text[pos:].strip() == '':
                break
            raise Unsupported(f'cannot tokenise at {pos}')
        pos = m.end()
        comment, paren, string, atom = m.groups()
        if comment is not None:
            continue
        if paren is not None:
            if paren in '([':
                stack.append([])
            else:
                done = stack.pop()
                if not stack:
                    raise Unsupported('unbalanced parentheses')
                stack[-1].append(done)
        elif string is not None:
            stack[-1].append(('str', string[1:-1]))
        else:
            stack[-1].append(atom)
    if len(stack) != 1:
        raise Unsupported('unbalanced parentheses')
    return stack[0]


_INT = re.compile(r'^[+-]?\d+$')
_DEC = re.compile(r'^[+-]?(\d+\.?\d*|\.\d+)([eE][+-]?\d+)?$')
_RAT = re.compile(r'^[+-]?\d+/\d*[1-9]\d*$')
_HEX = re.compile(r'^[+-]?0x([0-9a-fA-F]+\.?[0-9a-fA-F]*|\.[0-9a-fA-F]+)(p[+-]?\d+)?$')


def parse_number(tok: str):
    """exact rational value of a numeric literal, or None"""
    if _INT.match(tok):
        return Fraction(int(tok))
    if _RAT.match(tok):
        p, q = tok.split('/')
        return Fraction(int(p), int(q))
    if _DEC.match(tok):
        return Fraction(tok)
    if _HEX.match(tok):
        return Fraction(float.fromhex(tok)) if len(tok) < 20 else None
    return None


# ---------------------------------------------------------------------------
# rounding contexts

ROUND_NAMES = {'nearestEven': 'RNE', 'nearestAway': 'RNA', 'toPositive': 'RTP',
               'toNegative': 'RTN', 'toZero': 'RTZ', 'awayZero': 'RAZ'}

_SPECS: dict = {}


def ieee_spec(es: int, nbits: int) -> R.Spec:
    key = ('ieee', es, nbits)
    if key not in _SPECS:
        p = nbits - es
        emax = 2 ** (es - 1) - 1
        emin = 1 - emax
        mx = (2 - Fraction(2) ** (1 - p)) * Fraction(2) ** emax
        _SPECS[key] = R.Spec('float', p=p, emin=emin, maxpos=mx, maxneg=-mx, label=f'ieee({es},{nbits})')
    return _SPECS[key]


def integer_spec() -> R.Spec:
    key = 'integer'
    if key not in _SPECS:
        _SPECS[key] = R.Spec('fixed', nmin=-1, has_nan=False, has_inf=False, has_negzero=False,
                             nan_sub='ERR', inf_sub='ERR', label='integer')
    return _SPECS[key]


def real_spec() -> R.Spec:
    if 'real' not in _SPECS:
        _SPECS['real'] = R.Spec('real', label='real')
    return _SPECS['real']


_SHORT = {'binary16': (5, 16), 'binary32': (8, 32), 'binary64': (11, 64), 'binary128': (15, 128),
          'binary80': (15, 79)}

DEFAULT_PROPS = (('precision', 'binary64'), ('round', 'nearestEven'))


def spec_of(props: dict):
    prec = props.get('precision', 'binary64')
    rnd = props.get('round', 'nearestEven')
    if rnd not in ROUND_NAMES:
        raise Unsupported(f'round {rnd}')
    mode = ROUND_NAMES[rnd]
    if isinstance(prec, str):
        if prec in _SHORT:
            return ieee_spec(*_SHORT[prec]), mode
        if prec == 'integer':
            return integer_spec(), mode
        if prec == 'real':
            return real_spec(), mode
        raise Unsupported(f'precision {prec}')
    if isinstance(prec, list) and len(prec) == 3 and prec[0] == 'float':
        return ieee_spec(int(prec[1]), int(prec[2])), mode
    raise Unsupported(f'precision {prec}')


def rnd(x: X, props: dict) -> X:
    spec, mode = spec_of(props)
    outs = R.round_model(spec, x, mode, 'OVERFLOW')
    if len(outs) != 1:
        raise Unsupported('rounding leaves a choice')
    v = outs[0][0]
    if v == 'ERR':
        raise Undefined(f'{x} is not representable under {spec.label}')
    return v


# ---------------------------------------------------------------------------
# exact operations with IEEE zero-sign rules

def _mode(props):
    return ROUND_NAMES.get(props.get('round', 'nearestEven'), 'RNE')


def x_add(a: X, b: X, props) -> X:
    r = a.add(b)
    if r.iszero and a.isfin and b.isfin:
        if a.iszero and b.iszero and a.s == b.s:
            return X.zero(a.s)
        return X.zero(_mode(props) == 'RTN')
    return r


def x_sqrt(a: X) -> X:
    if a.isnan:
        return a
    if a.iszero:
        return a
    if a.s:
        return X.nan()
    if a.isinf:
        return a
    q = a.q
    # exact when q is a perfect square; otherwise a rational strictly between
    # floor and ceiling at 2^-400 relative resolution: no member or midpoint of a
    # format with < 150 significant bits lies in between, so rounding it is
    # rounding the root.
    num, den = q.numerator, q.denominator
    rn, rd = math.isqrt(num), math.isqrt(den)
    if rn * rn == num and rd * rd == den:
        return X.fin(Fraction(rn, rd))
    e = R.ilog2(q)
    shift = 800 - e            # q * 2^shift has ~800 bits; shift even
    if shift % 2:
        shift += 1
    scaled = q * Fraction(2) ** shift
    fl = scaled.numerator // scaled.denominator
    root = math.isqrt(fl)
    exact = (root * root == fl) and scaled.denominator == 1
    half = shift // 2
    val = Fraction(root) / Fraction(2) ** half
    if not exact:
        val += Fraction(1, 2) / Fraction(2) ** half
    return X.fin(val)


def x_int_round(a: X, how: str) -> X:
    if not a.isfin or a.iszero:
        return a
    q = a.q
    if how == 'floor':
        n = math.floor(q)
    elif how == 'ceil':
        n = math.ceil(q)
    elif how == 'trunc':
        n = math.trunc(q)
    else:
        raise Unsupported(how)
    if n == 0:
        return X.zero(q < 0)
    return X.fin(Fraction(n))


# ---------------------------------------------------------------------------
# evaluator

class Evaluator:
    def __init__(self, max_steps: int = 20000, ignore_props: bool = False):
        self.max_steps = max_steps
        self.steps = 0
        self.ignore_props = ignore_props      # evaluate everything under binary64 / nearestEven

    def tick(self):
        self.steps += 1
        if self.steps > self.max_steps:
            raise Diverged(f'more than {self.max_steps} loop iterations')

    # -- entry -----------------------------------------------------------
    def run(self, text: str, args: list):
        forms = parse_sexp(text)
        if len(forms) != 1 or not isinstance(forms[0], list) or not forms[0] or forms[0][0] != 'FPCore':
            raise Unsupported('not a single FPCore')
        form = forms[0][1:]
        if form and isinstance(form[0], str):       # identifier
            form = form[1:]
        params = form[0]
        rest = form[1:]
        props = dict(DEFAULT_PROPS)
        i = 0
        core_level = False
        while i < len(rest) - 1 and isinstance(rest[i], str) and rest[i].startswith(':'):
            key = rest[i][1:]
            if key in ('precision', 'round') and not self.ignore_props:
                # properties of the core are the rounding context of its whole body
                props[key] = rest[i + 1]
                core_level = True
            i += 2
        body = rest[i]
        if len(params) != len(args):
            raise RefError('arity')
        env = {}
        for p, a in zip(params, args):
            if isinstance(p, list):
                if p and p[0] == '!':
                    raise Unsupported('annotated argument')
                name, dims = p[0], p[1:]
                self._check_dims(a, dims, env)
                env[name] = a
            else:
                env[p] = a
        if core_level:
            def check(a):
                if isinstance(a, tuple):
                    for x in a:
                        check(x)
                elif isinstance(a, X) and not rnd(a, props).same(a, zero_sign=False):
                    raise ArgumentNotRepresentable(f'{a} under the core\'s context')
            for a in args:
                check(a)
        return self.ev(body, env, props)

    def _check_dims(self, a, dims, env):
        cur = a
        for d in dims:
            if not isinstance(cur, tuple):
                raise RefError('tensor argument rank')
            if _INT.match(d):
                if len(cur) != int(d):
                    raise RefError('tensor argument size')
            else:
                env[d] = X.fin(len(cur))
            cur = cur[0] if cur else None
            if cur is None:
                break

    # -- helpers ---------------------------------------------------------
    def num(self, e, env, props) -> X:
        v = self.ev(e, env, props)
        if not isinstance(v, X):
            raise RefError(f'expected a number, got {v!r}')
        return v

    def boolean(self, e, env, props) -> bool:
        v = self.ev(e, env, props)
        if not isinstance(v, bool):
            raise RefError(f'expected a boolean, got {v!r}')
        return v

    def index(self, e, env, props) -> int:
        v = self.num(e, env, props)
        if not v.isfin or v.q.denominator != 1:
            raise RefError(f'index/size {v} is not an integer')
        return int(v.q)

    def update_props(self, props, items):
        """items: [':k', v, ':k2', v2, ..., body] -> (new props, body)"""
        new = dict(props)
        i = 0
        while i < len(items) - 1:
            k = items[i]
            if not (isinstance(k, str) and k.startswith(':')):
                raise Unsupported('malformed annotation')
            new[k[1:]] = items[i + 1]
            i += 2
        if i != len(items) - 1:
            raise Unsupported('malformed annotation')
        return new, items[-1]

    # -- expressions -----------------------------------------------------
    def ev(self, e, env, props):
        if isinstance(e, str):
            if e in env:
                return env[e]
            q = parse_number(e)
            if q is not None:
                x = X.zero(e.startswith('-')) if q == 0 else X.fin(q)
                return rnd(x, props)
            if e == 'TRUE':
                return True
            if e == 'FALSE':
                return False
            if e == 'NAN':
                return rnd(X.nan(), props)
            if e == 'INFINITY':
                return rnd(X.inf(False), props)
            if e in ('PI', 'E', 'LOG2E', 'LOG10E', 'LN2', 'LN10', 'PI_2', 'PI_4', 'M_1_PI', 'M_2_PI',
                     'M_2_SQRTPI', 'SQRT2', 'SQRT1_2'):
                raise Unsupported(e)
            raise RefError(f'unbound variable {e}')
        if not isinstance(e, list) or not e:
            raise Unsupported(f'expression {e!r}')
        head = e[0]
        if not isinstance(head, str):
            raise Unsupported(f'operator {head!r}')
        m = getattr(self, 'op_' + _MANGLE.get(head, head), None)
        if head in env and m is None:
            raise Unsupported('call')
        if m is None:
            raise Unsupported(f'operator {head}')
        return m(e[1:], env, props)

    # annotation
    def op_bang(self, a, env, props):
        new, body = self.update_props(props, a)
        return self.ev(body, env, props if self.ignore_props else new)

    # arithmetic
    def _arith(self, a, n, env, props):
        if len(a) != n:
            raise RefError('arity')
        return [self.num(x, env, props) for x in a]

    def op_add(self, a, env, props):
        x, y = self._arith(a, 2, env, props)
        return rnd(x_add(x, y, props), props)

    def op_sub(self, a, env, props):
        if len(a) == 1:
            x, = self._arith(a, 1, env, props)
            return rnd(x.neg(), props)
        x, y = self._arith(a, 2, env, props)
        return rnd(x_add(x, y.neg(), props), props)

    def op_mul(self, a, env, props):
        x, y = self._arith(a, 2, env, props)
        return rnd(x.mul(y), props)

    def op_div(self, a, env, props):
        x, y = self._arith(a, 2, env, props)
        return rnd(x.div(y), props)

    def op_fabs(self, a, env, props):
        x, = self._arith(a, 1, env, props)
        return rnd(x.abs(), props)

    def op_sqrt(self, a, env, props):
        x, = self._arith(a, 1, env, props)
        return rnd(x_sqrt(x), props)

    def op_fma(self, a, env, props):
        x, y, z = self._arith(a, 3, env, props)
        return rnd(x_add(x.mul(y), z, props), props)

    def op_copysign(self, a, env, props):
        x, y = self._arith(a, 2, env, props)
        if y.isnan:
            raise Unsupported('copysign with a NaN sign')
        if x.isnan:
            return rnd(x, props)
        m = x.abs()
        return rnd(m.neg() if y.s else m, props)

    def op_cast(self, a, env, props):
        x, = self._arith(a, 1, env, props)
        return rnd(x, props)

    def op_floor(self, a, env, props):
        x, = self._arith(a, 1, env, props)
        return rnd(x_int_round(x, 'floor'), props)

    def op_ceil(self, a, env, props):
        x, = self._arith(a, 1, env, props)
        return rnd(x_int_round(x, 'ceil'), props)

    def op_trunc(self, a, env, props):
        x, = self._arith(a, 1, env, props)
        return rnd(x_int_round(x, 'trunc'), props)

    # predicates
    def _cmp(self, a, env, props, test, unordered):
        vals = [self.num(x, env, props) for x in a]
        if len(vals) < 2:
            raise RefError('arity')
        for x, y in zip(vals, vals[1:]):
            c = x.cmp(y)
            if c is None:
                if not unordered:
                    return False
            elif not test(c):
                return False
        return True

    def op_lt(self, a, env, props):
        return self._cmp(a, env, props, lambda c: c < 0, False)

    def op_gt(self, a, env, props):
        return self._cmp(a, env, props, lambda c: c > 0, False)

    def op_le(self, a, env, props):
        return self._cmp(a, env, props, lambda c: c <= 0, False)

    def op_ge(self, a, env, props):
        return self._cmp(a, env, props, lambda c: c >= 0, False)

    def op_eq(self, a, env, props):
        return self._cmp(a, env, props, lambda c: c == 0, False)

    def op_ne(self, a, env, props):
        vals = [self.num(x, env, props) for x in a]
        if len(vals) != 2:
            raise Unsupported('n-ary !=')
        c = vals[0].cmp(vals[1])
        return True if c is None else c != 0

    def op_and(self, a, env, props):
        # the standard's `and` / `or` are ordinary operators; evaluation order is only
        # observable through errors, which the caller does not compare
        r = True
        for x in a:
            if not self.boolean(x, env, props):
                r = False
        return r

    def op_or(self, a, env, props):
        r = False
        for x in a:
            if self.boolean(x, env, props):
                r = True
        return r

    def op_not(self, a, env, props):
        return not self.boolean(a[0], env, props)

    def op_isnan(self, a, env, props):
        return self.num(a[0], env, props).isnan

    def op_isinf(self, a, env, props):
        return self.num(a[0], env, props).isinf

    def op_isfinite(self, a, env, props):
        return self.num(a[0], env, props).isfin

    def op_signbit(self, a, env, props):
        x = self.num(a[0], env, props)
        if x.isnan:
            raise Unsupported('signbit of NaN')
        return x.s

    # control
    def op_if(self, a, env, props):
        if len(a) != 3:
            raise RefError('arity')
        return self.ev(a[1] if self.boolean(a[0], env, props) else a[2], env, props)

    def op_let(self, a, env, props):
        binds, body = a
        new = dict(env)
        for name, val in binds:
            new[name] = self.ev(val, env, props)
        return self.ev(body, new, props)

    def op_letstar(self, a, env, props):
        binds, body = a
        new = dict(env)
        for name, val in binds:
            new[name] = self.ev(val, new, props)
        return self.ev(body, new, props)

    def _loop_inits(self, binds, env, props, star):
        new = dict(env)
        for name, init, _ in binds:
            new[name] = self.ev(init, new if star else env, props)
        return new

    def _loop_update(self, binds, cur, props, star):
        if star:
            for name, _, upd in binds:
                cur[name] = self.ev(upd, cur, props)
            return cur
        vals = [(name, self.ev(upd, cur, props)) for name, _, upd in binds]
        nxt = dict(cur)
        for name, v in vals:
            nxt[name] = v
        return nxt

    def _while(self, a, env, props, star):
        cond, binds, body = a
        cur = self._loop_inits(binds, env, props, star)
        while self.boolean(cond, cur, props):
            self.tick()
            cur = self._loop_update(binds, cur, props, star)
        return self.ev(body, cur, props)

    def op_while(self, a, env, props):
        return self._while(a, env, props, False)

    def op_whilestar(self, a, env, props):
        return self._while(a, env, props, True)

    def _dims(self, dims, env, props):
        names, sizes = [], []
        for name, n in dims:
            names.append(name)
            k = self.index(n, env, props)
            if k < 0:
                raise RefError('negative dimension')
            sizes.append(k)
        return names, sizes

    @staticmethod
    def _indices(sizes):
        if not sizes:
            yield ()
            return
        idx = [0] * len(sizes)
        if any(s == 0 for s in sizes):
            return
        while True:
            yield tuple(idx)
            k = len(sizes) - 1
            while k >= 0:
                idx[k] += 1
                if idx[k] < sizes[k]:
                    break
                idx[k] = 0
                k -= 1
            if k < 0:
                return

    def _for(self, a, env, props, star):
        dims, binds, body = a
        names, sizes = self._dims(dims, env, props)
        cur = self._loop_inits(binds, env, props, star)
        for idx in self._indices(sizes):
            self.tick()
            scope = dict(cur)
            for nme, i in zip(names, idx):
                scope[nme] = X.zero(False) if i == 0 else X.fin(i)
            scope = self._loop_update(binds, scope, props, star)
            for name, _, _ in binds:
                cur[name] = scope[name]
        return self.ev(body, cur, props)

    def op_for(self, a, env, props):
        return self._for(a, env, props, False)

    def op_forstar(self, a, env, props):
        return self._for(a, env, props, True)

    def op_tensor(self, a, env, props):
        if len(a) != 2:
            raise Unsupported('tensor with loop variables')
        dims, body = a
        names, sizes = self._dims(dims, env, props)

        def build(k, scope):
            if k == len(sizes):
                self.tick()
                return self.ev(body, scope, props)
            out = []
            for i in range(sizes[k]):
                s2 = dict(scope)
                s2[names[k]] = X.zero(False) if i == 0 else X.fin(i)
                out.append(build(k + 1, s2))
            return tuple(out)
        return build(0, dict(env))

    # arrays
    def op_array(self, a, env, props):
        return tuple(self.ev(x, env, props) for x in a)

    def op_ref(self, a, env, props):
        v = self.ev(a[0], env, props)
        for ix in a[1:]:
            i = self.index(ix, env, props)
            if not isinstance(v, tuple):
                raise RefError('ref of a non-array')
            if not 0 <= i < len(v):
                raise RefError(f'index {i} out of range {len(v)}')
            v = v[i]
        return v

    def op_size(self, a, env, props):
        v = self.ev(a[0], env, props)
        d = self.index(a[1], env, props)
        for _ in range(d):
            if not isinstance(v, tuple) or not v:
                raise RefError('size: dimension out of range')
            v = v[0]
        if not isinstance(v, tuple):
            raise RefError('size of a non-array')
        n = len(v)
        return X.zero(False) if n == 0 else X.fin(n)

    def op_dim(self, a, env, props):
        v = self.ev(a[0], env, props)
        d = 0
        while isinstance(v, tuple):
            d += 1
            if not v:
                break
            v = v[0]
        return X.zero(False) if d == 0 else X.fin(d)


_MANGLE = {'!': 'bang', '+': 'add', '-': 'sub', '*': 'mul', '/': 'div', '<': 'lt', '>': 'gt', '<=': 'le',
           '>=': 'ge', '==': 'eq', '!=': 'ne', 'let*': 'letstar', 'while*': 'whilestar', 'for*': 'forstar'}


def evaluate(text: str, args: list, max_steps: int = 20000, ignore_props: bool = False):
    """args: X | bool | nested tuples thereof.  Returns the same kinds."""
    return Evaluator(max_steps, ignore_props).run(text, args)
