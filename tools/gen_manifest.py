#!/venv/bin/python
"""Regenerates /verif/MANIFEST.json from the table below (keeps it valid at all times)."""
import json, os
ROOT = os.path.dirname(os.path.dirname(os.path.abspath(__file__)))

# pid -> (technique, level text, level note, design ref)
CHECKS = {
 'C05': ('bounded exhaustive enumeration of all operand pairs over a small value pool of the five numeric types, '
         'each compared with an exact-rational reference model',
         'Every ordered pair of a pool of several hundred values (all (s,c,exp) encodings in a box as RealFloat and Float, '
         'specials, ints, floats, Fractions) is pushed through every operator on the real classes and compared with '
         'an extended-real reference model (incl. compare(), integer roundings, sign/zero predicates, digit accessors, '
         'from_int/from_float/from_rational on every native value, and Floats carrying a context tag with digits inside '
         'and outside that format); the space is finite and enumerated completely.',
         'Small-scope: significands <= 15 and exponents in [-3,3] plus a few wide/huge encodings; Python int/Fraction trusted.',
         '§5 C05'),
}
CHECKS['C01'] = (
 'bounded exhaustive enumeration of every small-format configuration x mode x overflow mode x per-binade operand grid, '
 'each rounding compared with an exact-rational rounding oracle (set of admissible outcomes)',
 'All configurations of every context family with small parameters (IEEE/EFloat up to 7 bits with every NaN kind, infinity '
 'option, offset and substitute; MP/MPS/MPB floats p<=5; all fixed-point families <=5 bits; Exp; REAL) x 8 modes x every '
 'overflow mode x every multiple of quantum/8 in every binade from below the smallest value to past the overflow threshold, '
 'in five operand forms, through round / round_at / round_integer / exact=True; value, both flags and membership compared.',
 'Small-scope: the rounding code is parametric in p/es/nbits/emin; value sets of encodable formats come from decode() (C16). '
 'RTE/RTO overflow arm, sign of substituted specials, flags of special operands and error types are left open as the '
 'documentation does.', '§5 C01')
CHECKS['C17'] = (
 'bounded exhaustive enumeration of configurations x k x modes x operands on the gap/2^(k+2) grid x ALL 2^k generator draws '
 '(scripted generator), counted against an exact-rational model',
 'For every small configuration of every family that accepts random bits, k=1..3 (thorough 1..5), all 8 base modes and every '
 'operand on a fine grid inside selected gaps (subnormal range, binade boundaries, last gap, overflow gap), every one of the '
 '2^k draws is supplied by a scripted generator: each result must be one of the two neighbours, the count of away-roundings '
 'must equal the exactly computed expectation, exactly one k-bit draw is consumed and the outcome is replay-deterministic; '
 'each context is also reached by derivation through with_params (rm/num_randbits, rng) and enumerated the same way.',
 'Neighbours/overflow arms come from the C01 oracle; counts past the largest value are judged only where overflow goes to '
 'infinity; ASSERT mode not exercised; k <= 5.', '§5 C17')
CHECKS['C10'] = (
 'bounded exhaustive enumeration of source contexts x modes x overflow modes x chain sub-sequences x operand grid, '
 'metamorphic comparison of the original quantizer with every distinct lowered program; identity rewrites run on all '
 'members of pinned argument formats',
 'Every small configuration of every context family is captured by a quantizer `with C: y = round(x)`; every prefix, single '
 'step and (thorough) every order-preserving sub-sequence of unfold_special/unfold_neg_zero/unfold_overflow[early]/'
 'float_to_fixed/rescale_fixed/simplify is applied and each distinct resulting program is run on the whole per-binade '
 'operand grid plus zeros, infinities and NaN and compared with the original; elim_round/insert_round are run on programs '
 'pinned by monomorphize to every (argument format, context) pair of a pool over ALL member pairs.',
 'Operands are Float values (dyadic); where=None application; original side tied to the oracle by C01; stochastic contexts '
 'not lowered.', '§5 C10')
CHECKS['C16'] = (
 'exhaustive enumeration of every bit pattern and every representable value of every small encodable format, compared '
 'with an independent layout decoder and the value set derived from it',
 'For every IEEE/EFloat configuration up to 6 (thorough 8) bits (every NaN kind, infinity option, exponent offset), every '
 'two''s-complement / sign-magnitude format up to 8 bits and every exponential format up to 6 bits: decode of every pattern, '
 'encode/decode round trips, ordinal map strictly increasing/contiguous/invertible, next_up/next_down, min/max queries, '
 'normalisation and representability against the decoded value set; constructor validity against the usability rule; all '
 '65536 binary16 patterns against numpy.',
 'binary32/64 are checked on a structured subset only (declared); decoders written from the published layouts; numpy/struct '
 'trusted for the platform formats.', '§5 C16')
CHECKS['C18'] = (
 'three exhaustive explorations on the real interpreter: all argument structures to depth 2; explicit-state BFS over '
 'operation histories (state = replayed event list); stateless preemption-bounded search of thread schedules under a '
 'cooperative sys.settrace scheduler (CHESS style: bound 0, 1, then 2)',
 'Argument isolation over every argument structure up to depth 2 x 19 programs; every history of evaluation / transformation '
 '/ direct rounding events up to depth 3 (thorough 4) compared with pristine single-event results; every schedule of 8 two-thread '
 'drivers forced to collide (same cold function under different contexts, nested calls through the default interpreter, MPFR at '
 'different precisions) with at most 1 (thorough 2) preemptions at ~50-600 scheduling points, each result compared with its '
 'sequential result; a deliberately racy canary must show >= 2 outcomes or the run aborts.',
 'Switches happen only at the declared points (calls of an allow-list, lines inside the check-then-act functions); a race inside '
 'a C extension with the GIL released is outside the model; the free-running real-thread pass is a reported sample, not a decider.',
 '§5 C18')
CHECKS['C02'] = (
 'bounded exhaustive enumeration of all operand tuples from complete small value sets x operations x contexts x modes, each '
 'result compared with the exact result (rationals / exact algebraic reals) rounded once by the rounding oracle',
 '21 operations x every pair (scale-reduced triples for fma) of a pool holding the complete value set of small floats plus '
 'zeros, infinities, NaN, non-dyadic Fractions, ints, Python floats and wide Floats x float/fixed/REAL target contexts x 8 '
 'modes; exact results from Fraction arithmetic and from sqrt/cbrt/hypot decided by integer root comparisons; IEEE 754 '
 'special-case tables per operation.',
 'Refusals (NotImplementedError) for non-dyadic operands and under REAL are counted, not judged; sign of exact zero sum under '
 'RTN, mod zero sign, hypot(inf,NaN), NaN**0, copysign(x,NaN) left open; inexact flag not judged.', '§5 C02')
CHECKS['C03'] = (
 'bounded exhaustive enumeration of functions x complete small operand sets and hard points x precisions x modes, and of every '
 'constant x every precision 1..512 x modes, each compared with an MPFR directed-rounding enclosure (Ziv) rounded once',
 '26 elementary/special functions over the complete value set of a 3-digit float on 11 binades plus structured hard points, '
 'under MPFloat p=1..12,24,53,64,113,237, small IEEE/MPS formats, binary16/32/64 and MPFixed targets (the two-pass precision '
 'branch), all 8 modes; all 12 named constants at EVERY precision 1..512 and MPFixed positions -200..5; exactness decided from '
 'a table of the rational cases before any evaluation; plus explicit-state histories: ordered sequences of (constant or function, '
 'context) evaluations started from a pristine process, each step judged by the same order-independent oracle.',
 'Trusted base: MPFR directed rounding at the oracle precision (a common-mode MPFR bug is out of scope); operands dyadic; '
 'magnitudes capped for exp-like functions; overflow flag and sign of a true zero result not judged.', '§5 C03')
CHECKS['C06'] = (
 'bounded exhaustive enumeration of literal spellings from a grammar, each evaluated by the real front end and interpreter and '
 'compared with an exact spelling->rational reader (never float()) and the rounding oracle',
 'Every spelling of a literal grammar (signs x integer digits x fraction digits x exponents incl. e22/e23/e308/e309/e-324/e-400, '
 'long-digit spellings, integers around 2^53 and 10^22/10^23, hex-float strings, rational(p,q), digits(m,e,b), negated zeros) '
 'is compiled as `return <lit>` and `return round(<lit>)` and evaluated under REAL and three narrow contexts.',
 'A bare literal under a narrow context may be exact or rounded once (documentation: literals round when used); only '
 'sign-symmetric modes for negated literals; hex strings outside FPy''s own grammar not judged.', '§5 C06')
CHECKS['C09'] = (
 'bounded exhaustive enumeration of caller/callee pairs and 3-chains x call positions x transformation pipelines x inputs x '
 'caller contexts, metamorphic comparison original vs transformed on the real interpreter',
 'All 1344 caller/callee pairs (3 callee contexts x 8 bodies x 28 call positions x 2 argument forms) and (thorough) all 2592 '
 '3-chains, each under 20-25 single transformations (inline at every index/cursor/None with funcs filter and recursion on/off, '
 'monomorphize over the context and type pool, close, lift_context) and 54 ordered pairs, on 8-12 inputs x 3-5 caller contexts.',
 'Judged only where the original returns; a documented refusal (TransformError family etc.) is counted, not judged.', '§5 C09')
CHECKS['C15'] = (
 'exhaustive enumeration of ALL programs up to a statement-count bound over a 19-construct alphabet, each pushed through the '
 'real front end; accepted ones run on all steering inputs; an independent scope model marks programs that must be rejected',
 'Every program of size <= 4 (quick; + a rotated slice of size 5) / <= 5 (thorough, 3.7 million programs) over assignments, '
 'tuple patterns, if/else, one-armed if, for, for-enumerate, while, with-as, comprehension, returns of every name and pass; '
 'accepted programs run on all 18 steering inputs (every branch outcome and trip count 0,1,2).',
 'Rejecting an acceptable program is not a violation; reads in dead code are not judged.', '§5 C15')
CHECKS['C04'] = (
 'bounded exhaustive enumeration of expression trees per operator row, statement skeletons up to a size bound and call graphs, '
 'each run on an input pool under several caller contexts and compared with an independent reference evaluator written from the '
 'documentation over exact rationals',
 'Four layers: the operator table (267 depth-1 trees x all 289 operand pairs x 5 contexts), all depth<=2 expression trees over 73 '
 'operator rows, all statement skeletons of 1-3 (thorough 1-4) nodes with expression/context holes filled from pools and a 1/3 probe '
 'after every compound statement, and 243 call chains covering every combination of declared contexts and with-blocks; inputs are all '
 'values of a 4-bit float, zeros, infinities, NaN, 1/3, 1/10 and lists of length 0-3; the reference evaluator parses source text '
 'with Python''s ast and rounds through the shared rounding oracle.',
 'Where the documentation is silent the reference answers "unspecified" and the observation is skipped (about 2.6%); sign of an '
 'exactly-zero rounded result is left to C02; error types compared only where the reference names them.', '§5 C04')
CHECKS['C13'] = (
 'bounded exhaustive enumeration of programs from four grammars (joins, value-class ladders, alias routes, sizes) x full input '
 'products; every analysis fact compared with values recorded per expression/definition by a tracing subclass of the real '
 'bytecode compiler, at every event of every execution',
 'Every program of the four families up to the size bound is analysed by TypeInfer, ArraySizeInfer, ValueClassInfer, PartialEval, '
 'DefineUse/ReachingDefs and Alias and executed on every input of the family pool (all branch outcomes, trip counts 0-2, every '
 'value class, equal and unequal list lengths); each reported fact is checked against the traced value (shape, length, class '
 'membership, constant value, the assignment that actually reached a read, object identity of lists).',
 'Executions in which an operation raises are not judged; alias facts only for lists produced by the documented routes; only the '
 'root activation is judged.', '§5 C13')
CHECKS['C19'] = (
 'explicit-state breadth-first search over strategy histories (state = program + applied strategy sequence), every aimable '
 'strategy x every site index x None at each state, with a cursor on every original statement forwarded across every history',
 'Programs from 8 loop-nest skeletons with marker literals on every statement; at each state every aimable strategy is applied at '
 'every listed index, at the listed cursor, at out-of-range indices and at None; the reported edit log is checked against an '
 'independent replay model (only the selected sites rewritten, all and only listed sites for None, sites+refusals = independently '
 'enumerated candidates); cursors taken on every statement of the original are forwarded across every history of depth <= 2 '
 '(thorough: 3 on small nests) and must resolve to the marker-carrying descendant or raise TransformReferenceError; user rewrite rules (fpy2.rewrite, '
 'replacement shorter / equal / longer than the pattern, statement and expression patterns) are part of the strategy alphabet.',
 'Histories that change nothing are checked but not extended; within=/region where are not explored.', '§5 C19')
CHECKS['C20'] = (
 'exhaustive enumeration of all operand pairs (scale-reduced triples) of small float formats x contexts x modes for every '
 'error-free transformation and decomposition, with exact rational identities and exactly evaluated preconditions',
 'All pairs of members over an exponent window (all finite members for bounded formats) of MPFloat p=2..6, MPSFloat, small IEEE, '
 'fixed-point contexts, under every mode a variant claims, for ideal/fast/classic/priest 2sum, ideal/classic/fast 2mul, ideal_fma, '
 'classic_2fma, veltkamp_split; split/modf/frexp/ldexp over every member, zeros, infinities, NaN; the identity s+t(+u) = a o b (+c) '
 'is checked in Fractions and s against the rounding oracle.',
 'Preconditions (nearest rounding, ordered magnitudes, minimum precision, headroom for error terms) evaluated exactly; '
 'precondition-false cells counted and not judged; dyadic operands only.', '§5 C20')
CHECKS['C07'] = (
 'bounded exhaustive enumeration of programs from eight def-use-hazard grammars x every enable_* switch subset, single pass and '
 'pass order x inputs; metamorphic comparison f(args) vs T(f)(args) on the real interpreter',
 'Every well-scoped program up to 4-5 (thorough 5-6) statements of eight grammar families (copy then reassign across straight line, '
 'branches and loop back-edges; lists mutated through aliases and by callees; rows of nested lists; constants under different with '
 'contexts and modes incl. -0.0 and 1/3; constant conditions and early returns; tuple targets) is transformed by simplify under the '
 'switch subsets, by each pass alone and by all 6 pass orders, and run on the input pool; results compared deeply (sign of zero, NaN, '
 'booleans, list/tuple shape); non-termination of simplify is decided structurally (same AST at the top of two rounds).',
 'Judged only where the original returns; a transformation that raises or does not terminate counts as a violation; failing cases are '
 'attributed to the single rewrite that reproduces them using three private fpy2 classes (coarse label if unavailable).', '§5 C07')
CHECKS['C11'] = (
 'bounded exhaustive enumeration of accepted programs from 21 families x all 12 compiler option sets x argument vectors; every '
 'emitted function compiled with g++ and run, output bit patterns compared with the interpreter',
 'Every program of 21 families (contexts and rounding modes, branches and early returns, loops, tuples/zip/sum/enumerate, aliased '
 'and nested lists, two-function modules with callee writes, integer contexts and REAL arithmetic) is compiled under all 12 '
 'combinations of optimize x unbox x arrays, all emissions of a shard go into one translation unit with a generated main printing '
 'results and the caller-visible list arguments as raw bit patterns, and every (program, option set, argument vector) is compared '
 'with Function.__call__ under the same context.',
 'Trusted base: g++ -O0 -std=c++17 -frounding-math -ffp-contract=off and the host IEEE arithmetic; integer programs keep values small '
 '(signed overflow is undefined in C++); rejections (CppCompileError) counted, not judged; quick uses a fixed core plus a seed-rotated '
 'slice of the full product.', '§5 C11')
CHECKS['C12'] = (
 'bounded exhaustive enumeration of programs in the FPCore-expressible subset (all block trees up to a node bound x context '
 'assignments x return forms, plus templates) x argument vectors; compiled cores evaluated by the reference FPCore evaluator '
 '(titanfp) and re-read functions compared with the interpreter',
 'Every block tree up to N nodes and depth 3 over nine node kinds (update, with-block, if/else, one-armed if, counted and plain while, '
 'for over a list, three range forms) crossed with every assignment of binary16/32/64 x four modes and integer contexts to the with '
 'nodes, the outer context and the return form, plus 12 tuple/tensor/reduction templates with every contiguous statement range '
 'wrapped in an inner with; each program is compiled, the core evaluated by titanfp, re-read with from_fpcore, and all three compared '
 'on 6-14 argument vectors and list sizes 0-3; disagreements with titanfp are arbitrated by an independent evaluator of FPCore text; a read-direction layer enumerates 840 '
 '(thorough 1890) FPCore texts directly (function-level property sets x inner partial annotations x nesting) and compares '
 'from_fpcore with the reference evaluator.',
 'titanfp is the trusted reference (its known overflow quirk under directed modes is arbitrated by the text evaluator and not '
 'reported); empty tensors are inconclusive for the compile direction; zero sign not compared.', '§5 C12')
CHECKS['C14'] = (
 'bounded exhaustive enumeration of programs x pinned contexts and argument formats run on ALL members of the argument formats, '
 'traced values checked for membership in the inferred formats; exhaustive check of abstract format arithmetic over all format '
 'pairs and all members of a window',
 'Part P: every program of five families (REAL chains with carries, comparison/logb refinements, loops with known and symbolic '
 'lengths under loop_iter_limit 1/2/10, helper calls, literal sets/lists/selection) is analysed for every cell of a context x '
 'argument-format pool and executed on every member of the argument formats; every traced expression, definition, merge, call and '
 'result value must be a member of the reported format (membership from an independent model of the public format parameters), and '
 'round_is_identity sites must change no value.  Part F: 520 abstract formats x 16 special-flag sets, all pairs, all members with '
 '|x| <= 8 on the 2^-4 grid, for + - * neg abs pos | & <= format() from_format.',
 'Executions that raise are not judged; only the first violating event of an execution is reported; analyses that themselves '
 'raise ValueError on ordinary programs are counted, not judged.', '§5 C14')
CHECKS['C08'] = (
 'bounded exhaustive enumeration of loop programs from four families x naming schemes x every strategy instance x site selection x '
 'all input lengths 0..9; metamorphic comparison f(args) vs T(f)(args) on the real interpreter',
 'Programs f(xs, ys, k): for loops over 14 + 12 header forms (plain, range, comprehension, zip / enumerate / enumerate(zip) with '
 'tuple, whole-tuple, discarded, nested and 3-way targets, static lengths) with all permutations up to a length bound of a '
 '21-statement body pool (accumulate, reassign the target, mutate or rebind the iterated list, return early, nest a loop); while '
 'loops; any/all reductions in 21 syntactic positions x 8 comprehensions (elements that raise or have side effects); zip/enumerate '
 'comprehensions; crossed with four naming schemes colliding with generated temporaries and narrow ambient contexts.  Strategies: '
 'unroll_for times 1-4 PEEL/STRICT, split factors 1-4 + variable + free-variable factor PEEL/STRICT, unroll_while 1-3, elim_iter '
 '(4 switch settings), fuse; where = None, each index, each cursor; list lengths 0-9.',
 'Judged only where the original returns; STRICT judged only where the length of every rewritten loop is divisible by the factor; '
 'non-termination decided by a CPU-time limit confirmed twice; mismatched-length zip inputs excluded (documented undefined).', '§5 C08')
PENDING = {}

def main():
    props = [json.loads(l)['id'] for l in open(os.path.join(ROOT, 'properties.jsonl'))]
    checks = []
    na = []
    for pid in props:
        if pid in CHECKS and os.path.exists(os.path.join(ROOT, 'mc', 'checks', pid.lower() + '.py')):
            tech, text, note, ref = CHECKS[pid]
            checks.append({
                'property_id': pid,
                'quick_cmd': f'./check {pid} --tier quick',
                'thorough_cmd': f'./check {pid} --tier thorough',
                'evidence_file': f'/verif/evidence/{pid}.json',
                'replay_cmd_template': f'./check {pid} --replay {{path}}',
                'engine': 'mc',
                'level_claimed': {'category': 'model_checking', 'text': text, 'design_ref': ref},
                'level_note': note,
                'technique': tech,
            })
        else:
            na.append({'property_id': pid,
                       'reason': PENDING.get(pid, 'not claimed yet: the bounded-exhaustive check for this property is '
                                                  'still under construction (see DESIGN.md §5); nothing is asserted about it')})
    m = {
        'version': 1,
        'setup_cmd': '/venv/bin/python -W ignore -m mc.selftest',
        'hooks': {'guard': 'FPY_VERIF', 'enable': 'none needed: checks observe through public API, a BytecodeCompiler '
                  'subclass living in /verif and sys.settrace; the launcher exports FPY_VERIF=1 for future hooks',
                  'baseline_off_cmd': 'cd /repo && env -u FPY_VERIF /venv/bin/python -m pytest -ra -q -p no:cacheprovider --timeout=900 --continue-on-collection-errors',
                  'source_commits': [], 'add_only': True},
        'engines': [{'name': 'mc', 'path': '/verif/mc', 'serves_properties': [c['property_id'] for c in checks],
                     'kind_free_text': 'hand-written explicit-state / bounded-exhaustive explorer for Python: finite '
                     'spaces sharded over 16 processes, reference models over exact rationals, replay artefacts, '
                     'fresh-process confirmation of every violation'}],
        'checks': checks,
        'notes': 'All checks run /venv/bin/python against the /repo working tree (editable install). VERIF_SEED sets PYTHONHASHSEED.',
        'not_applicable': na,
    }
    with open(os.path.join(ROOT, 'MANIFEST.json'), 'w') as f:
        json.dump(m, f, indent=1)
    print('checks:', [c['property_id'] for c in checks], 'unclaimed:', [x['property_id'] for x in na])

if __name__ == '__main__':
    main()
