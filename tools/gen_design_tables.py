#!/venv/bin/python
"""Regenerates the generated part of DESIGN.md §10 (between the GENERATED markers) from
known_findings.json and seeded/*/meta.json."""
import glob, json, os, re
ROOT = os.path.dirname(os.path.dirname(os.path.abspath(__file__)))
kf = json.load(open(os.path.join(ROOT, 'known_findings.json')))['findings']
out = []
out.append('### 10.3 Genuine defects found by the checks and repaired in /repo (`fix:` commits)\n')
out.append('Each was first reported by the check of the property named, reproduced by `--replay` in a fresh process, '
           'triaged by hand against the documentation, repaired by one minimal unguarded commit, and is listed as `fixed` in '
           '`known_findings.json` (a `fixed` entry suppresses nothing: the check is silent on the repaired tree and reports the '
           'violation again if it returns).\n')
out.append('| property | commit | what failed |')
out.append('|---|---|---|')
for f in kf:
    if f['status'] == 'fixed':
        w = re.sub(r'^fixed: property=C\d+ (?:[0-9a-f]{7} )?', '', f['what'])
        out.append(f"| {f['property']} | {f.get('commit','')} | {w.replace('|', '/')} |")
out.append('')
out.append('### 10.4 Genuine defects recorded, not repaired (`known` entries)\n')
out.append('These are reported as `KNOWN-FINDING:` lines and do not affect the exit status; any other violation of the same '
           'property — a different signature — still prints `VIOLATION` and exits 1.\n')
out.append('| property | signature | what fails | why not repaired |')
out.append('|---|---|---|---|')
WHY = {
 'C18': 'needs a per-call copy of captured containers in the compiled prologue: a design decision about captured state (a 17-line candidate patch is kept in tests/c18_patches)',
 'C09': 'needs earlier-evaluated operands bound to temporaries or a purity-gated refusal: larger than a small safe patch',
 'C06': 'the repository\'s C++ backend tests pin `1e300` to the double Python read, so the exact reading breaks the unedited suite',
 'C04': 'same finding as C06 (integer spelled with an exponent)',
 'C07': 'folding a list-valued name to a literal is pinned by repository tests (test_list_ref_folds, test_list_literal_substituted_at_var)',
 'C11': '',
}
WHY11 = {'exactly-zero': 'the interpreter\'s +0 is deliberate (format inference states the same rule; C02 leaves the sign open)',
         'literal': 'spelling the literal at the operation\'s width changes emitted text that 11 repository tests pin'}
seen = set()
for f in kf:
    if f['status'] == 'known':
        key = (f['property'], f['what'][:60])
        if key in seen:
            continue
        seen.add(key)
        why = WHY.get(f['property'], '')
        if f['property'] == 'C11':
            why = WHY11['exactly-zero'] if 'exactly-zero' in f['what'] else WHY11['literal']
        sig = ', '.join(f'{k}={v}' for k, v in f['signature'].items())
        out.append(f"| {f['property']} | `{sig[:90]}` | {f['what'].replace('|','/')[:260]} | {why} |")
out.append('')
out.append('### 10.5 Seeded property-breaking changes (independent sub-agents, property text only) and what catches them\n')
out.append('Each change was written by a fresh sub-agent that saw only the property text and a scratch worktree, passes the '
           'repository suite (load flakes re-run), and comes with a demonstration that fails with it and passes without it '
           '(both confirmed by `tools/try_seed.py`).  Kept under `seeded/<id>/` (patch.diff, demo.py, meta.json).\n')
out.append('| seed | change | needs | caught by (quick tier) | note |')
out.append('|---|---|---|---|---|')
NOTES = json.load(open(os.path.join(ROOT, 'seeded', 'notes.json'))) if os.path.exists(os.path.join(ROOT, 'seeded', 'notes.json')) else {}
for d in sorted(glob.glob(os.path.join(ROOT, 'seeded', 'C*'))):
    name = os.path.basename(d)
    try:
        m = json.load(open(os.path.join(d, 'meta.json')))
    except Exception:
        continue
    v = m.get('verified_by_coordinator', {})
    caught = [c for c, r in v.get('checks', {}).items() if r['exit'] == 1 and r['violation_lines'] > 0]
    summ = str(m.get('summary', ''))[:170].replace('|', '/').replace('\n', ' ')
    needs = str(m.get('what_it_needs_to_manifest', ''))[:170].replace('|', '/').replace('\n', ' ')
    out.append(f"| {name} | {summ} | {needs} | {', '.join(caught) if caught else '**missed**'} | {NOTES.get(name, '')} |")
text = '\n'.join(out) + '\n'
p = os.path.join(ROOT, 'DESIGN.md')
s = open(p).read()
a, b = '<!-- GENERATED:BEGIN -->', '<!-- GENERATED:END -->'
if a in s:
    s = s[:s.index(a)] + a + '\n' + text + b + s[s.index(b) + len(b):]
else:
    i = s.index('### 10.3 Genuine defects found')
    s = s[:i] + a + '\n' + text + b + '\n'
open(p, 'w').write(s)
print('DESIGN.md tables regenerated:', sum(1 for f in kf if f['status']=='fixed'), 'fixed,', len(seen), 'known')
