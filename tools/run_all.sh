#!/bin/bash
# tools/run_all.sh quick|thorough  — runs every registered check once, prints one line each
tier=${1:-quick}
cd "$(dirname "$0")/.."
for c in ${CHECKS:-C01 C02 C03 C04 C05 C06 C07 C08 C09 C10 C11 C12 C13 C14 C15 C16 C17 C18 C19 C20}; do
  s=$(date +%s)
  out=$(./check $c --tier $tier 2>&1)
  rc=$?
  e=$(( $(date +%s) - s ))
  echo "$c rc=$rc ${e}s :: $(echo "$out" | grep -E "^C[0-9]+ tier" | tail -1)"
  echo "$out" | grep -E "^VIOLATION|^BROKEN|^NONREPRO|CAP" | head -5
done
