#!/venv/bin/python
"""
tools/try_seed.py C01 a [--tier quick] [--checks C01,C10]

Confirms a seeded property-breaking change produced by an independent sub-agent
(worktree /tmp/seed-<pid><tag>, deliverables /tmp/seed-<pid><tag>-out) and runs
the registered check(s) against it via FPY_REPO (never touching /repo):

 1. demo.py exits non-zero WITH the patch and zero WITHOUT it;
 2. ./check <pid> --tier <tier> with FPY_REPO=<worktree> must exit 1 with VIOLATION lines;
 3. everything is recorded under /verif/seeded/<pid><tag>/ (patch.diff, demo.py, meta.json).
"""
import json
import os
import shutil
import subprocess
import sys
import time

ROOT = os.path.dirname(os.path.dirname(os.path.abspath(__file__)))


def sh(cmd, **kw):
    return subprocess.run(cmd, shell=True, capture_output=True, text=True, **kw)


def main():
    pid, tag = sys.argv[1], sys.argv[2]
    tier = 'quick'
    checks = [pid]
    args = sys.argv[3:]
    while args:
        a = args.pop(0)
        if a == '--tier':
            tier = args.pop(0)
        elif a == '--checks':
            checks = args.pop(0).split(',')
    wt = f'/tmp/seed-{pid}{tag}'
    out = f'/tmp/seed-{pid}{tag}-out'
    dst = os.path.join(ROOT, 'seeded', f'{pid}{tag}')
    os.makedirs(dst, exist_ok=True)
    for f in ('patch.diff', 'demo.py', 'meta.json'):
        if os.path.exists(os.path.join(out, f)):
            shutil.copy(os.path.join(out, f), os.path.join(dst, f))
    # normalise the patch from the worktree itself
    d = sh(f'git -C {wt} diff -- fpy2')
    if d.stdout.strip():
        open(os.path.join(dst, 'patch.diff'), 'w').write(d.stdout)
    env = dict(os.environ, PYTHONPATH=wt)
    demo = os.path.join(dst, 'demo.py')
    is_pytest = 'def test_' in open(demo).read() and '__main__' not in open(demo).read()
    run_demo = (f'/venv/bin/python -m pytest -q -p no:cacheprovider {demo}' if is_pytest
                else f'/venv/bin/python -W ignore {demo}')
    with_patch = sh(run_demo, env=env, cwd=wt)
    # (git stash is shared by all worktrees of a repository: reverse-apply the patch instead)
    pf = os.path.join(dst, 'patch.diff')
    rv = sh(f'git -C {wt} apply -R {pf}')
    assert rv.returncode == 0, rv.stderr
    try:
        without = sh(run_demo, env=env, cwd=wt)
    finally:
        ap = sh(f'git -C {wt} apply {pf}')
        assert ap.returncode == 0, ap.stderr
    rec = {'demo_with_patch_exit': with_patch.returncode, 'demo_without_patch_exit': without.returncode,
           'demo_confirms': with_patch.returncode != 0 and without.returncode == 0, 'checks': {}}
    print(f'demo: with patch exit={with_patch.returncode}, without exit={without.returncode}')
    for c in checks:
        t0 = time.time()
        env2 = dict(os.environ, FPY_REPO=wt)
        r = sh(f'./check {c} --tier {tier}', env=env2, cwd=ROOT)
        lines = [l for l in r.stdout.splitlines() if l.startswith('VIOLATION') or l.startswith('BROKEN')]
        sigs = [l.strip() for l in r.stdout.splitlines() if l.strip().startswith('signature=')]
        rec['checks'][c] = {'tier': tier, 'exit': r.returncode, 'violation_lines': len(lines),
                            'signatures': sigs[:6], 'wall_s': round(time.time() - t0, 1),
                            'summary': r.stdout.strip().splitlines()[-1] if r.stdout.strip() else r.stderr[-300:]}
        print(f'{c} {tier}: exit={r.returncode} violations={len(lines)} ({rec["checks"][c]["wall_s"]}s)')
        for s in sigs[:4]:
            print('   ', s[:220])
        # restore unchanged-tree evidence for this check afterwards is the caller's job
    meta_p = os.path.join(dst, 'meta.json')
    meta = {}
    if os.path.exists(meta_p):
        try:
            meta = json.load(open(meta_p))
        except Exception:
            meta = {'raw_meta': open(meta_p).read()[:2000]}
    meta['verified_by_coordinator'] = rec
    meta['detected'] = any(v['exit'] == 1 and v['violation_lines'] > 0 for v in rec['checks'].values())
    json.dump(meta, open(meta_p, 'w'), indent=1)
    print('detected:', meta['detected'])


if __name__ == '__main__':
    main()
