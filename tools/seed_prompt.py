#!/venv/bin/python
"""Prints the brief for a mutation-seeding sub-agent: ONLY the property text and its scratch worktree."""
import json, sys
pid = sys.argv[1]
tag = sys.argv[2] if len(sys.argv) > 2 else 'a'
avoid = sys.argv[3] if len(sys.argv) > 3 else ''
for l in open('/verif/properties.jsonl'):
    p = json.loads(l)
    if p['id'] == pid:
        break
wt = f'/tmp/seed-{pid}{tag}'
out = f'/tmp/seed-{pid}{tag}-out'
print(f"""You are given a scratch git worktree of the Python library bksaiki/fpy (an embedded Python DSL for numerical algorithms; the package is `fpy2`) at {wt}. Run everything against that copy: `cd {wt} && PYTHONPATH={wt} /venv/bin/python ...` and verify with `PYTHONPATH={wt} /venv/bin/python -c "import fpy2; print(fpy2.__file__)"` that the worktree copy is the one imported. Work ONLY inside {wt} and {out}; do not read or touch /verif, and do not modify /repo.

Here is a semantic property that is supposed to hold for this library:

TITLE: {p['title']}
STATEMENT: {p['statement']}
QUANTIFIED OVER: {p['quantifier']['text']}
(The code most relevant to it: {', '.join(p['anchors']['files'][:12])})

Your job: make ONE realistic change to the library source under {wt}/fpy2 that BREAKS this property, while the package still imports and the repository's existing test suite still passes. Run the suite with `cd {wt} && PYTHONPATH={wt} /venv/bin/python -m pytest -q -p no:cacheprovider -n 4 tests` (3442-ish tests, a few minutes; the machine is busy, so a few Hypothesis-based tests may fail with a `too_slow`/deadline health check — rerun exactly those alone to confirm they are load flakes unrelated to your change; any real failure means you must pick a different change). The change should be the kind of defect a developer could plausibly introduce (an off-by-one, a wrong comparison, a missing case, a swapped operand, a stale cache, a dropped flag, a wrong branch condition …) in the mechanism that is meant to make the property hold, and it should need something SPECIFIC to manifest — a particular input class, configuration, multi-step sequence, interleaving, or two cooperating sites that each look fine alone — not something ordinary use would expose at once. {('An earlier exercise already used this change, so pick a DIFFERENT mechanism and a different file if you can: ' + avoid + '. ') if avoid else ''}Prefer a subtle change over a blatant one, and do not pick a trivially equivalent change: you must demonstrate that it really breaks the property.

Deliver, in {out}/ (create it):
1. patch.diff — `git -C {wt} diff` of your change (source only).
2. demo.py — a small self-contained program (or pytest file) that exits non-zero / fails WITH your change and exits 0 / passes WITHOUT it (test both ways with `git -C {wt} diff > /tmp/p.diff; git -C {wt} apply -R /tmp/p.diff; …; git -C {wt} apply /tmp/p.diff` — do NOT use `git stash`: the stash is shared by all worktrees of the repository and other agents are using it), run as `PYTHONPATH={wt} /venv/bin/python {out}/demo.py`.
3. meta.json — {{"property": "{pid}", "summary": one line, "what_it_needs_to_manifest": …, "files_changed": […], "suite_result": the pytest summary line you observed with the change, "flaky_reruns": what you reran}}.
Do not commit in the worktree. Never use pkill/killall (other agents share this machine): kill only your own processes, by PID. Your final answer: 5-10 lines describing the change, what triggers it, and the exact suite/demo results.""")
